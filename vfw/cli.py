"""./check Cnn --tier quick|thorough  |  ./check Cnn --replay <file>"""
import argparse
import os
import sys
import traceback


def main(argv=None):
    ap = argparse.ArgumentParser(prog="check")
    ap.add_argument("prop")
    ap.add_argument("--tier", default=os.environ.get("VERIF_TIER", "quick"), choices=["quick", "thorough"])
    ap.add_argument("--replay", default=None)
    a = ap.parse_args(argv)
    if os.environ.get("PYTHONHASHSEED") != "0":
        os.environ["PYTHONHASHSEED"] = "0"
        os.execv(sys.executable, [sys.executable, "-m", "vfw.cli"] + (argv or sys.argv[1:]))
    try:
        seed = int(os.environ.get("VERIF_SEED", "1"))
    except ValueError:
        seed = 1
    from vfw import core
    prop = a.prop.upper()
    modname = "props.%s" % prop.lower()
    try:
        core.ensure_repo_on_path()
        if a.replay:
            import importlib
            mod = importlib.import_module(modname)
            res = core.replay_file(mod, a.replay)
            if res is None:
                print("%s replay %s: property holds" % (prop, a.replay))
                return 0
            msg, sig = res
            open_sigs = {k["signature"]: k for k in core.load_known()
                         if k.get("property") == prop and k.get("status") == "open"}
            if sig in open_sigs:
                print("KNOWN-FINDING: property=%s %s" % (prop, open_sigs[sig]["what"]))
                return 0
            print("VIOLATION property=%s replay=%s" % (prop, a.replay))
            print("  " + msg)
            return 1
        return core.run_property(modname, a.tier, seed)
    except SystemExit:
        raise
    except BaseException:
        sys.stderr.write("HARNESS ERROR:\n" + traceback.format_exc())
        return 2


if __name__ == "__main__":
    sys.exit(main())
