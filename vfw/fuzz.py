"""Coverage-guided layer: one libFuzzer (atheris) campaign over one Sub.

The bytes libFuzzer mutates are decoded by the Sub's own Hypothesis strategy (`fuzz_one_input`), so every executed input is a
case of the same domain as in the plain runs and is judged by the same oracle; branch coverage of frame/ and tools/ (instrumented
at import) steers the mutation.  One campaign is one process; the runner starts one per core with different -seed values.

usage (internal): python -m vfw.fuzz <props.module> <sub> <runs> <seed> <outdir> <deadline-epoch>
Writes <outdir>/summary.json (counters, rewritten periodically: libFuzzer ends the process without running Python finalisers)
and, on a violation, <outdir>/failure.json; exit status 77 = violation recorded, 0 = campaign finished / budget used up.
"""
import importlib
import json
import os
import sys
import time


def main(argv):
    prop_mod, sub_name, runs, seed, outdir, deadline = argv[0], argv[1], int(argv[2]), int(argv[3]), argv[4], float(argv[5])
    open_sigs = frozenset(json.loads(argv[6])) if len(argv) > 6 else frozenset()
    import atheris
    from vfw import core
    core.ensure_repo_on_path()
    with atheris.instrument_imports(include=["frame", "tools"], enable_loader_override=False):
        mod = importlib.import_module(prop_mod)
    sub = next(s for s in mod.subchecks() if s.name == sub_name)
    from hypothesis import HealthCheck, Verbosity, given, settings
    st = core.Stats()
    holder = {}
    state = dict(last=time.time())

    def dump():
        e = st.export()
        e["nontrivial"] = sorted(e["nontrivial"])
        e["classes"] = dict(e["classes"])
        e["known"] = dict(e["known"])
        tmp = os.path.join(outdir, "summary.json.tmp")
        with open(tmp, "w") as f:
            json.dump(e, f)
        os.replace(tmp, os.path.join(outdir, "summary.json"))

    def body(case):
        now = time.time()
        if now > deadline:
            st.skipped += 1
            dump()
            os._exit(0)
        try:
            core._guarded_run(sub, case, st, open_sigs, holder)
        except (core.Violation, core.AbortRun):
            with open(os.path.join(outdir, "failure.json"), "w") as f:
                json.dump(list(holder["viol"]), f)
            dump()
            os._exit(77)
        if now - state["last"] > 2 or st.evaluations >= runs:
            state["last"] = now
            dump()

    test = settings(database=None, deadline=None, suppress_health_check=list(HealthCheck),
                    verbosity=Verbosity.quiet)(given(sub.strategy)(body))
    corpus = os.path.join(outdir, "corpus")
    os.makedirs(corpus, exist_ok=True)
    # -timeout=0: libFuzzer's own SIGALRM watchdog is off, the per-case alarm of the runner is used instead
    args = [sys.argv[0], "-runs=%d" % runs, "-seed=%d" % (seed % (2 ** 31 - 1) + 1), "-max_len=16384", "-len_control=20", "-timeout=0",
            "-rss_limit_mb=4096", "-verbosity=0", "-print_final_stats=0", "-close_fd_mask=3", corpus]
    dump()
    atheris.Setup(args, test.hypothesis.fuzz_one_input)
    atheris.Fuzz()


if __name__ == "__main__":
    main(sys.argv[1:])
