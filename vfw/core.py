"""
Runner of the FRAME property checks.

A property module (props/cNN.py) defines PROP, RULE, ASSUMPTIONS, LEVEL_TEXT and a function
subchecks() returning a list of Sub objects.  A Sub couples a generator (a Hypothesis strategy
producing a JSON-serialisable *case*, or a deterministic enumeration) with an oracle
run(case) -> info that raises Violation when the property is broken by the code under test.

The runner shards every Sub over worker processes, merges counters, writes the evidence file and
turns the smallest (shrunk) failing case into a replay file.  Exit codes: 0 held, 1 violation
(not listed as an open known finding), 2 harness error.
"""
from __future__ import annotations

import hashlib
import importlib
import importlib.util
import json
import multiprocessing as mp
import os
import shutil
import sys
import tempfile
import time
import traceback
from collections import Counter

VERIF = os.path.dirname(os.path.dirname(os.path.abspath(__file__)))
REPO = os.environ.get("FRAME_REPO", "/repo")
NPROC = int(os.environ.get("VERIF_NPROC", "16"))


class Violation(Exception):
    """The code under test broke the property on the current case."""

    def __init__(self, msg: str, sig: str | None = None):
        super().__init__(msg)
        self.sig = sig or msg.split(":")[0][:80]


class CaseTimeout(BaseException):
    """raised by the per-case alarm"""


class AbortRun(BaseException):
    """stops a Hypothesis run at once (no shrinking), e.g. after a case that did not return"""


def _on_alarm(signum, frame):
    raise CaseTimeout()


class Sub:
    """One generator + oracle pair of a property."""

    def __init__(self, name, run, strategy=None, enum=None, n_quick=1000, n_thorough=20000,
                 required=(), shrink_quick=True, shrink_thorough=True, exhaustive=False,
                 reset=True, shards=None, desc="", case_timeout=120, fuzz_quick=0, fuzz_thorough=0):
        self.name = name
        self.run = run  # run(case) -> dict(nt=bool, cls=[...]) ; raises Violation
        self.strategy = strategy  # hypothesis strategy of cases (JSON-serialisable)
        self.enum = enum  # enum(tier, shard, nshards) -> iterator of cases
        self.n = {"quick": n_quick, "thorough": n_thorough}
        self.required = tuple(required)  # classes that must be seen (else generator regression)
        self.shrink = {"quick": shrink_quick, "thorough": shrink_thorough}
        self.exhaustive = exhaustive
        self.reset = reset  # restore FRAME's process-wide state before each case
        self.shards = shards
        self.desc = desc
        # executions per coverage-guided (atheris / libFuzzer) campaign over the same strategy and oracle; one campaign per core
        self.fuzz = {"quick": fuzz_quick, "thorough": fuzz_thorough}
        self.case_timeout = int(os.environ.get("VERIF_CASE_TIMEOUT", case_timeout))  # seconds; a case of a ms-scale operation that does not return is a failure


# ------------------------------------------------------------------------------------------------
# helpers


def _strkeys(o):
    if isinstance(o, dict):
        return {(k if isinstance(k, str) else "%s:%r" % (type(k).__name__, k)): _strkeys(v) for k, v in o.items()}
    if isinstance(o, (list, tuple)):
        return [_strkeys(v) for v in o]
    return o


def canon(case) -> str:
    try:
        return json.dumps(case, sort_keys=True, separators=(",", ":"))
    except TypeError:  # a generated (ill-formed) document with keys of several types: not sortable as they are
        return json.dumps(_strkeys(case), sort_keys=True, separators=(",", ":"))


def h64(s: str) -> int:
    return int.from_bytes(hashlib.blake2b(s.encode(), digest_size=8).digest(), "big")


def derive_seed(base: int, *parts) -> int:
    s = "|".join([str(base)] + [str(p) for p in parts])
    return int.from_bytes(hashlib.sha256(s.encode()).digest()[:8], "big")


def ensure_repo_on_path():
    if REPO not in sys.path:
        sys.path.insert(0, REPO)
    import frame
    import tools
    for mod in (frame, tools):
        f = os.path.realpath(mod.__file__)
        if not f.startswith(os.path.realpath(REPO) + os.sep):
            raise RuntimeError(f"{mod.__name__} resolves to {f}, not under {REPO}")


def reset_frame_state():
    """Restore what a fresh interpreter has (see DESIGN 2.4).  Only touches modules already imported."""
    g = sys.modules.get("frame.geometry.geometry")
    if g is not None:
        g.Rectangle.undefine_epsilon()
    # tools.rect.pseudobool.memory / mmap (the process-wide ROBDD store) are deliberately NOT reset: node numbers are only
    # meaningful together with the store, and code that legitimately caches node numbers would break under a reset
    # that never happens in real use.  The store is append-only and content-addressed, so cases stay independent.
    et = sys.modules.get("tools.legalfloor.expression_tree")
    if et is not None and hasattr(et, "named_variables"):
        try:
            et.named_variables.clear()
        except Exception:
            pass


def load_known():
    p = os.path.join(VERIF, "known_findings.json")
    if not os.path.exists(p):
        return []
    with open(p) as f:
        return json.load(f).get("findings", [])


class Stats:
    def __init__(self):
        self.evaluations = 0
        self.nontrivial = set()
        self.classes = Counter()
        self.samples = []
        self.known = Counter()
        self.skipped = 0

    def record(self, case, info):
        self.evaluations += 1
        if not info:
            return
        for c in info.get("cls", ()):
            self.classes[c] += 1
        if info.get("nt"):
            self.classes["nontrivial"] += 1
            c = canon(case)
            self.nontrivial.add(h64(c))
            if len(self.samples) < 2 and len(c) < 4000:
                self.samples.append(case)

    def export(self):
        return dict(evaluations=self.evaluations, nontrivial=self.nontrivial, classes=self.classes,
                    samples=self.samples, known=self.known, skipped=self.skipped)


# ------------------------------------------------------------------------------------------------
# worker side


def _limit_memory():
    """a runaway loop in the code under test must end in MemoryError, not in swapping the machine to death"""
    try:
        import resource
        lim = int(os.environ.get("VERIF_MEM_GB", "3")) << 30
        resource.setrlimit(resource.RLIMIT_AS, (lim, lim))
    except Exception:
        pass


def _fuzz_campaign(prop_mod, sub_name, shard, n, seed_val, deadline, open_sigs):
    """One libFuzzer campaign in a child process (vfw/fuzz.py); returns the same record as a Hypothesis shard."""
    import subprocess
    out = dict(sub=sub_name + FUZZ_TAG, shard=shard, failure=None, error=None)
    d = tempfile.mkdtemp(prefix="fuzz-%s-%d-" % (sub_name, shard))
    try:
        env = dict(os.environ, PYTHONHASHSEED="0")
        summ = os.path.join(d, "summary.json")
        for attempt in (1, 2):
            r = subprocess.run([sys.executable, "-m", "vfw.fuzz", prop_mod, sub_name, str(n), str(seed_val), d, repr(deadline),
                                json.dumps(sorted(open_sigs))], cwd=VERIF, env=env, capture_output=True, text=True)
            if r.returncode in (0, 77) and os.path.exists(summ):
                break
            # the campaign process ended abnormally (killed, out of memory, libFuzzer's own limits): it is started once more with the
            # same seed - a failure of the harness itself repeats and is reported, a transient one does not
            first = "atheris campaign ended with status %s\n%s" % (r.returncode, (r.stderr or "")[-3000:])
            if attempt == 2:
                if "Traceback (most recent call last)" in (r.stderr or ""):
                    out["error"] = first  # an exception of the harness or of the code under test outside the oracle: reported
                    return out
                # twice no Python exception and no result (killed, out of memory, libFuzzer's own limits): this campaign explored nothing;
                # it is counted as skipped and the run goes on - the generated shards and the other campaigns decide
                sys.stderr.write("note: %s/%s campaign %d ended abnormally twice without a Python exception (status %s): abandoned, "
                                 "%d runs counted as skipped\n" % (prop_mod, sub_name, shard, r.returncode, n))
                out.update(evaluations=0, nontrivial=set(), classes=Counter(), samples=[], known=Counter(), skipped=n)
                return out
            sys.stderr.write("note: %s/%s campaign %d ended abnormally (status %s), started again\n%s\n" % (
                prop_mod, sub_name, shard, r.returncode, (r.stderr or "")[-1500:]))
            shutil.rmtree(d, ignore_errors=True)
            os.makedirs(d, exist_ok=True)
        with open(summ) as f:
            e = json.load(f)
        out.update(evaluations=e["evaluations"], nontrivial=set(e["nontrivial"]), classes=Counter(e["classes"]),
                   samples=e["samples"], known=Counter(e["known"]), skipped=e["skipped"])
        if r.returncode == 77:
            with open(os.path.join(d, "failure.json")) as f:
                case, msg, sig = json.load(f)
            out["failure"] = (case, msg + "  [found by the coverage-guided campaign; not shrunk]", sig)
    except BaseException:
        out["error"] = traceback.format_exc()
    finally:
        shutil.rmtree(d, ignore_errors=True)
    return out


FUZZ_TAG = "@atheris"


def _task(args):
    prop_mod, sub_name, shard, nshards, n, seed_val, deadline, tier, open_sigs = args
    if sub_name.endswith(FUZZ_TAG):
        return _fuzz_campaign(prop_mod, sub_name[:-len(FUZZ_TAG)], shard, n, seed_val, deadline, open_sigs)
    _limit_memory()
    out = dict(sub=sub_name, shard=shard, failure=None, error=None)
    try:
        mod = importlib.import_module(prop_mod)
        sub = next(s for s in mod.subchecks() if s.name == sub_name)
        st = Stats()
        if sub.enum is not None:
            failure = _enum_task(sub, tier, shard, nshards, deadline, st, open_sigs)
        else:
            failure = _hyp_task(sub, n, seed_val, deadline, st, sub.shrink[tier], open_sigs)
        out.update(st.export())
        out["failure"] = failure
    except BaseException:  # harness error
        out["error"] = traceback.format_exc()
    return out


def _guarded_run(sub, case, st, open_sigs, holder):
    if sub.reset:
        reset_frame_state()
    import signal
    signal.signal(signal.SIGALRM, _on_alarm)
    signal.setitimer(signal.ITIMER_REAL, sub.case_timeout)
    try:
        info = sub.run(case)
    except CaseTimeout:
        signal.setitimer(signal.ITIMER_REAL, 0)
        sig = "no-result-within-timeout"
        if sig in open_sigs:
            st.known[sig] += 1
            return
        holder["viol"] = (case, "the operation did not return within %d s (it normally takes milliseconds)" % sub.case_timeout, sig)
        raise AbortRun()
    except MemoryError as e:
        signal.setitimer(signal.ITIMER_REAL, 0)
        e.__traceback__ = None
        del e
        import gc
        gc.collect()
        sig = "memory-exhausted"
        if sig in open_sigs:
            st.known[sig] += 1
            return
        holder["viol"] = (case, "the operation exhausted the per-process memory limit (runaway loop?)", sig)
        raise AbortRun()
    except Violation as v:
        signal.setitimer(signal.ITIMER_REAL, 0)
        if v.sig in open_sigs:
            st.known[v.sig] += 1
            return
        holder["viol"] = (case, str(v), v.sig)
        raise
    finally:
        signal.setitimer(signal.ITIMER_REAL, 0)
    st.record(case, info)


def _enum_task(sub, tier, shard, nshards, deadline, st, open_sigs):
    holder = {}
    for case in sub.enum(tier, shard, nshards):
        if time.time() > deadline:
            st.skipped += 1
            break
        try:
            _guarded_run(sub, case, st, open_sigs, holder)
        except (Violation, AbortRun):
            return holder["viol"]
    return None


def _hyp_task(sub, n, seed_val, deadline, st, shrink, open_sigs):
    import hypothesis
    from hypothesis import HealthCheck, Phase, Verbosity, given, settings

    holder = {}

    def body(case):
        if time.time() > deadline:
            st.skipped += 1
            return
        _guarded_run(sub, case, st, open_sigs, holder)

    phases = [Phase.explicit, Phase.generate] + ([Phase.shrink] if shrink else [])
    stt = settings(max_examples=max(1, n), database=None, deadline=None, derandomize=False,
                   report_multiple_bugs=False, suppress_health_check=list(HealthCheck),
                   phases=phases, verbosity=Verbosity.quiet)
    test = hypothesis.seed(seed_val)(stt(given(sub.strategy)(body)))
    try:
        test()
    except (Violation, AbortRun):
        return holder["viol"]
    except BaseException as e:
        # Hypothesis reports a failure that does not reproduce when the example is re-run as "flaky".  The oracle is a
        # pure function of the case, so this means the code under test answered differently depending on what the
        # process did before (state leaking between cases).  The violation was observed against the real code: report it.
        if type(e).__name__ in ("Flaky", "FlakyFailure", "FlakyStrategyDefinition", "FlakyReplay") and "viol" in holder:
            case, msg, sig = holder["viol"]
            return (case, msg + "  [history-dependent: the same case passed when re-executed in the same process; "
                    "replaying it alone may not reproduce]", sig)
        raise
    return None


# ------------------------------------------------------------------------------------------------
# parent side


def _find_sub(mod, name):
    for s in mod.subchecks():
        if s.name == name:
            return s
    raise KeyError(name)


def replay_file(mod, path):
    """Runs one stored case through its oracle.  Returns None if it holds, (msg, sig) otherwise."""
    with open(path) as f:
        doc = json.load(f)
    sub = _find_sub(mod, doc["sub"])
    if sub.reset:
        reset_frame_state()
    import signal
    signal.signal(signal.SIGALRM, _on_alarm)
    signal.setitimer(signal.ITIMER_REAL, sub.case_timeout)
    try:
        sub.run(doc["case"])
    except CaseTimeout:
        return ("the operation did not return within %d s (it normally takes milliseconds)" % sub.case_timeout,
                "no-result-within-timeout")
    except MemoryError as e:
        e.__traceback__ = None
        del e
        import gc
        gc.collect()
        return ("the operation exhausted the per-process memory limit (runaway loop?)", "memory-exhausted")
    except Violation as v:
        return str(v), v.sig
    finally:
        signal.setitimer(signal.ITIMER_REAL, 0)
    return None


def _replay_in_child(prop_mod, path, q):
    _limit_memory()
    try:
        mod = importlib.import_module(prop_mod)
        q.put(("ok", replay_file(mod, path)))
    except BaseException:
        q.put(("err", traceback.format_exc()))


def replay_isolated(prop_mod, path):
    """Replays in a forked child so that the parent never executes FRAME code."""
    ctx = mp.get_context("fork")
    q = ctx.Queue()
    p = ctx.Process(target=_replay_in_child, args=(prop_mod, path, q))
    p.start()
    kind, val = q.get()
    p.join()
    if kind == "err":
        raise RuntimeError("replay of %s failed in the harness:\n%s" % (path, val))
    return val


def write_found(prop, sub, case, msg, sig):
    d = os.path.join(os.environ.get("VERIF_FOUND_DIR") or os.path.join(VERIF, "found"), prop)  # (sensitivity runs write elsewhere)
    os.makedirs(d, exist_ok=True)
    c = canon(case)
    path = os.path.join(d, "found-%s-%016x.json" % (sub, h64(sub + c)))
    doc = dict(property=prop, sub=sub, message=msg, signature=sig, case=case)
    try:
        text = json.dumps(doc, indent=1, sort_keys=True)
    except TypeError:  # keys of several types somewhere in the case: keep the insertion order
        text = json.dumps(doc, indent=1)
    with open(path, "w") as f:
        f.write(text)
    return path


def run_property(prop_mod_name: str, tier: str, seed: int) -> int:
    t0 = time.time()
    ensure_repo_on_path()
    mod = importlib.import_module(prop_mod_name)
    prop = mod.PROP
    subs = mod.subchecks()
    known = [k for k in load_known() if k.get("property") == prop]
    open_known = [k for k in known if k.get("status") == "open"]
    open_sigs = frozenset(k["signature"] for k in open_known)

    scratch = tempfile.mkdtemp(prefix="vfw-%s-" % prop, dir=os.environ.get("VERIF_SCRATCH_BASE"))
    os.environ["TMPDIR"] = scratch
    tempfile.tempdir = scratch
    violations = []  # (path, msg)
    known_lines = []
    try:
        # ---- regression tier: committed replay files + open findings
        rdir = os.path.join(VERIF, "replay", prop)
        replayed = 0
        if os.path.isdir(rdir) and not os.environ.get("VERIF_NO_REGRESSION"):
            for fn in sorted(os.listdir(rdir)):
                if not fn.endswith(".json"):
                    continue
                path = os.path.join(rdir, fn)
                res = replay_isolated(prop_mod_name, path)
                replayed += 1
                if res is not None:
                    msg, sig = res
                    if sig in open_sigs:
                        k = next(k for k in open_known if k["signature"] == sig)
                        known_lines.append("KNOWN-FINDING: property=%s %s" % (prop, k["what"]))
                    else:
                        violations.append((path, msg))
        for line in sorted(set(known_lines)):
            print(line)

        # ---- generated search
        budget = getattr(mod, "BUDGET_S", {"quick": 150, "thorough": 1500})[tier]
        deadline = t0 + budget
        tasks = []
        for s in subs:
            nshards = s.shards or NPROC
            total = s.n[tier]
            if s.enum is None:
                nshards = max(1, min(nshards, total // 5 or 1))
            per = -(-total // nshards)
            for sh in range(nshards):
                tasks.append((prop_mod_name, s.name, sh, nshards, per,
                              derive_seed(seed, prop, s.name, sh), deadline, tier, open_sigs))
        fuzzed = []
        for s in subs:
            nf = s.fuzz[tier] if not os.environ.get("VERIF_NO_FUZZ") else 0
            if s.fuzz["thorough"] and os.environ.get("VERIF_FUZZ_RUNS"):  # (trial runs of the fuzz layer)
                nf = int(os.environ["VERIF_FUZZ_RUNS"])
            if nf and importlib.util.find_spec("atheris") is None:
                sys.stderr.write("note: atheris is not installed, the coverage-guided campaigns of %s/%s are skipped\n" % (prop, s.name))
                nf = 0
            if nf and s.strategy is not None:
                fuzzed.append(s)
                for sh in range(NPROC):
                    tasks.append((prop_mod_name, s.name + FUZZ_TAG, sh, NPROC, nf,
                                  derive_seed(seed, prop, s.name, "atheris", sh), deadline, tier, open_sigs))
        # interleave subs so that expensive ones start early
        tasks.sort(key=lambda t: (t[2], t[1]))
        ctx = mp.get_context("fork")
        results = []
        with ctx.Pool(min(NPROC, max(1, len(tasks))), maxtasksperchild=None) as pool:
            for r in pool.imap_unordered(_task, tasks, chunksize=1):
                results.append(r)

        errors = [r for r in results if r["error"]]
        if errors:
            sys.stderr.write("HARNESS ERROR in %s/%s shard %s:\n%s\n" % (
                prop, errors[0]["sub"], errors[0]["shard"], errors[0]["error"]))
            return 2

        per_sub = {}
        total_eval, all_nt, all_classes, samples = 0, set(), Counter(), []
        known_counter = Counter()
        skipped = 0
        for s, tag in [(s, "") for s in subs] + [(s, FUZZ_TAG) for s in fuzzed]:
            rs = [r for r in results if r["sub"] == s.name + tag]
            ev = sum(r["evaluations"] for r in rs)
            nt = set()
            cl = Counter()
            for r in rs:
                nt |= {(s.name, h) for h in r["nontrivial"]}
                cl.update(r["classes"])
                known_counter.update(r["known"])
                skipped += r["skipped"]
            smp = [x for r in rs for x in r["samples"]][:3]
            fails = [r["failure"] for r in rs if r["failure"]]
            per_sub[s.name + tag] = dict(evaluations=ev, distinct_nontrivial=len(nt), classes=dict(sorted(cl.items())),
                                         failures=len(fails), exhaustive=bool(s.exhaustive) and not tag,
                                         desc=s.desc if not tag else "the same strategy and oracle driven by atheris/libFuzzer "
                                         "(branch coverage of frame/ and tools/ as feedback), %d independent campaigns" % len(rs))
            total_eval += ev
            all_nt |= nt
            all_classes.update({"%s%s:%s" % (s.name, tag, k): v for k, v in cl.items()})
            samples.extend({"sub": s.name, "case": x} for x in smp)
            if fails:
                case, msg, sig = min(fails, key=lambda f: len(canon(f[0])))
                path = write_found(prop, s.name, case, msg, sig)
                violations.append((path, msg))
            missing = [c for c in s.required if cl.get(c, 0) == 0] if not tag else []
            if missing and not fails and ev > 0 and skipped == 0:
                sys.stderr.write("HARNESS ERROR: %s/%s never produced required classes %s\n" % (
                    prop, s.name, missing))
                return 2

        for sig, cnt in sorted(known_counter.items()):
            k = next(k for k in open_known if k["signature"] == sig)
            line = "KNOWN-FINDING: property=%s %s" % (prop, k["what"])
            if line not in known_lines:
                known_lines.append(line)
                print(line)

        wall = time.time() - t0
        evidence = dict(
            property_id=prop, tier=tier, seed=seed, level="exploration",
            coverage=dict(
                evaluations=total_eval + replayed,
                distinct_nontrivial=len(all_nt),
                rule=mod.RULE,
                samples=samples[:12] or [{"note": "no non-trivial sample recorded"}],
                exhaustive=bool(subs) and all(s.exhaustive for s in subs),
                exhaustive_subchecks=[s.name for s in subs if s.exhaustive],
                subchecks=per_sub,
                classes=dict(sorted(all_classes.items())),
                regression_replays=replayed,
                known_finding_hits=dict(known_counter),
                budget_s=budget, cases_skipped_after_budget=skipped,
                engine="hypothesis %s, %d worker processes%s" % (_hyp_version(), NPROC, (
                    "; atheris %s campaigns on %s" % (_atheris_version(), ", ".join(s.name for s in fuzzed))) if fuzzed else ""),
            ),
            assumptions=list(mod.ASSUMPTIONS),
            wall_s=round(wall, 2),
            violations=len(violations),
        )
        evdir = os.environ.get("VERIF_EVIDENCE_DIR") or os.path.join(VERIF, "evidence")  # (sensitivity runs write elsewhere)
        os.makedirs(evdir, exist_ok=True)
        with open(os.path.join(evdir, "%s.json" % prop), "w") as f:
            try:
                text = json.dumps(evidence, indent=1, sort_keys=True)
            except TypeError:
                text = json.dumps(_strkeys(evidence), indent=1, sort_keys=True)
            f.write(text + "\n")

        if violations:
            for path, msg in violations:
                print("VIOLATION property=%s replay=%s" % (prop, path))
                print("  " + msg.replace("\n", "\n  ")[:2000])
            return 1
        print("%s %s: held on %d cases (%d distinct non-trivial), %d regression replays, %.1fs" % (
            prop, tier, total_eval, len(all_nt), replayed, wall))
        return 0
    finally:
        shutil.rmtree(scratch, ignore_errors=True)


def _atheris_version():
    try:
        from importlib.metadata import version
        return version("atheris")
    except Exception:
        return "?"


def _hyp_version():
    import hypothesis
    return hypothesis.__version__
