"""Exact plane geometry of axis-parallel rectangles in Fraction arithmetic (reference model).

A rectangle is a tuple (x0, y0, x1, y1) of Fractions with x0 < x1 and y0 < y1.
"""
from fractions import Fraction as Fr
from itertools import combinations


def F(v) -> Fr:
    """int / 'p/q' / decimal string / float (exact binary value) -> Fraction"""
    if isinstance(v, Fr):
        return v
    if isinstance(v, (int, str)):
        return Fr(v)
    return Fr(v)  # float: exact


def rect_cs(cx, cy, w, h):
    cx, cy, w, h = F(cx), F(cy), F(w), F(h)
    return (cx - w / 2, cy - h / 2, cx + w / 2, cy + h / 2)


def of_frame(r):
    """Exact rectangle denoted by a FRAME Rectangle (its float centre/shape taken as exact reals)."""
    return rect_cs(r.center.x, r.center.y, r.shape.w, r.shape.h)


def area(r):
    return (r[2] - r[0]) * (r[3] - r[1])


def inter(a, b):
    x0, y0, x1, y1 = max(a[0], b[0]), max(a[1], b[1]), min(a[2], b[2]), min(a[3], b[3])
    if x0 < x1 and y0 < y1:
        return (x0, y0, x1, y1)
    return None


def inter_area(a, b):
    i = inter(a, b)
    return area(i) if i else Fr(0)


def inside(a, b, tol=0):
    """a inside b (closed)"""
    return a[0] >= b[0] - tol and a[1] >= b[1] - tol and a[2] <= b[2] + tol and a[3] <= b[3] + tol


def pairwise_disjoint(rs, tol=0):
    for a, b in combinations(rs, 2):
        if inter_area(a, b) > tol:
            return False, (a, b)
    return True, None


def hanan(rs):
    xs = sorted({v for r in rs for v in (r[0], r[2])})
    ys = sorted({v for r in rs for v in (r[1], r[3])})
    return xs, ys


def cover_count(rs, p):
    """number of rectangles whose open interior contains p"""
    return sum(1 for r in rs if r[0] < p[0] < r[2] and r[1] < p[1] < r[3])


def same_union(A, B):
    """union(A) == union(B) as point sets up to measure zero (A, B lists of rectangles)"""
    xs, ys = hanan(list(A) + list(B))
    for i in range(len(xs) - 1):
        for j in range(len(ys) - 1):
            p = ((xs[i] + xs[i + 1]) / 2, (ys[j] + ys[j + 1]) / 2)
            if (cover_count(A, p) > 0) != (cover_count(B, p) > 0):
                return False
    return True


def tiles_exactly(pieces, whole):
    """pieces are inside whole, pairwise disjoint, and their areas sum to whole's area"""
    if not all(inside(p, whole) for p in pieces):
        return False
    ok, _ = pairwise_disjoint(pieces)
    return ok and sum((area(p) for p in pieces), Fr(0)) == area(whole)


def union_area(rs):
    xs, ys = hanan(rs)
    tot = Fr(0)
    for i in range(len(xs) - 1):
        for j in range(len(ys) - 1):
            p = ((xs[i] + xs[i + 1]) / 2, (ys[j] + ys[j + 1]) / 2)
            if cover_count(rs, p) > 0:
                tot += (xs[i + 1] - xs[i]) * (ys[j + 1] - ys[j])
    return tot


def abut_side(t, r):
    """Sides of trunk t on which r abuts within t's extent without overlapping it: set of 'N','S','E','W'."""
    out = set()
    if inter_area(t, r) > 0:
        return out
    if r[1] == t[3] and r[0] >= t[0] and r[2] <= t[2]:
        out.add("N")
    if r[3] == t[1] and r[0] >= t[0] and r[2] <= t[2]:
        out.add("S")
    if r[0] == t[2] and r[1] >= t[1] and r[3] <= t[3]:
        out.add("E")
    if r[2] == t[0] and r[1] >= t[1] and r[3] <= t[3]:
        out.add("W")
    return out


def dec(fr: Fr) -> str:
    """Shortest exact decimal literal of a Fraction whose denominator is 2^a 5^b."""
    fr = F(fr)
    d = fr.denominator
    k = 0
    while d % 2 == 0:
        d //= 2
        k += 1
    m = 0
    while d % 5 == 0:
        d //= 5
        m += 1
    if d != 1:
        raise ValueError("not a terminating decimal: %s" % fr)
    p = max(k, m)
    n = fr.numerator * (10 ** p) // fr.denominator
    s = str(abs(n)).rjust(p + 1, "0")
    txt = (s[:-p] + "." + s[-p:]) if p else s
    return ("-" if n < 0 else "") + txt


def num(fr: Fr):
    """What a YAML reader makes of dec(fr): an int literal gives int, otherwise the nearest float."""
    fr = F(fr)
    if fr.denominator == 1:
        return int(fr)
    return float(fr)


def selftest():
    import random
    rnd = random.Random(12345)
    for _ in range(300):
        rs = []
        for _ in range(rnd.randint(1, 5)):
            x0, y0 = rnd.randint(0, 5), rnd.randint(0, 5)
            rs.append((Fr(x0), Fr(y0), Fr(x0 + rnd.randint(1, 4)), Fr(y0 + rnd.randint(1, 4))))
        # brute force on unit cells
        cells = {(i, j) for r in rs for i in range(int(r[0]), int(r[2])) for j in range(int(r[1]), int(r[3]))}
        assert union_area(rs) == len(cells)
        a, b = rs[0], rs[-1]
        ca = {(i, j) for i in range(int(a[0]), int(a[2])) for j in range(int(a[1]), int(a[3]))}
        cb = {(i, j) for i in range(int(b[0]), int(b[2])) for j in range(int(b[1]), int(b[3]))}
        assert inter_area(a, b) == len(ca & cb)
        assert inside(a, b) == (ca <= cb)
        assert same_union(rs, [(Fr(i), Fr(j), Fr(i + 1), Fr(j + 1)) for (i, j) in cells])
    assert dec(Fr(3, 10)) == "0.3" and dec(Fr(5, 2)) == "2.5" and dec(Fr(7)) == "7" and dec(Fr(1, 400)) == "0.0025"
    assert float(dec(Fr(1, 8))) == 0.125
    return True
