"""Netlist generator.  A *model* is a JSON-serialisable exact description:

  dict(unit='0.1', modules=[{name, kind, area:{region:int}|None, area_scalar:bool, center:[hx,hy]|None (half units),
                              ar:None|number|[lo,hi], rects:[[x0,y0,x1,y1,region|None]...], flip:bool, tfixed:bool, flat:bool}],
       nets=[{m:[names], w:None|number}])

Lengths are integers x unit (centres: integers x unit/2), areas integers x unit^2.  to_tree / to_text turn it into
what FRAME reads; expected_* compute the derived quantities of the definition in Fractions.
"""
from fractions import Fraction as Fr

from hypothesis import strategies as st

from gen import lattice as L
from gen.stog import stog_rects
from vfw import exact as X

_i = st.integers

NAMES = ["M1", "M2", "A", "B", "core", "alu0", "yes", "no", "on", "off", "null_", "_x", "y", "N", "n", "Y", "M1e3", "true_",
         "true", "null", "e5", "_1", "T", "x_", "_", "False", "Module_with_a_long_name_0123456789", "fixed", "area", "Nets"]
REGIONS = ["DSP", "LUT", "BRAM", "yes", "A", "n"]
UNITS = ["1", "1", "0.5", "0.125", "2", "16", "0.1", "0.1", "0.01", "0.3", "0.7", "0.025", "2.5", "7", "1.1", "10"]
WEIGHTS = [None, None, None, 1, 1.0, 2, 3, 10, 0.5, 2.5, 0.001, 1e-05, 7.25, 100,
           0.0123456789, 1234567.25, 0.30000000000000004, 0.3333333333333333, 123456789, 2.0000001]  # (weights that need more than 6 digits)
AR_SCALAR = [0.5, 2, 1, 3.0, 0.25, 1.5, 1.0]
AR_LO = [0, 0.25, 0.5, 1, 1.0, 0.0]
AR_HI = [1, 1.0, 2, 4.5, 3]


@st.composite
def netlist_model(draw, min_modules=1, max_modules=6, kinds=("soft", "soft", "hard", "fixed", "terminal"), max_nets=5,
                  all_centres=False, units=None, allow_flip=True, regions_ok=True, soft_rect_overlap=True, pads=False):
    unit = draw(st.sampled_from(units or UNITS))
    n = draw(_i(min_modules, max_modules))
    names = draw(st.lists(st.sampled_from(NAMES), min_size=n, max_size=n, unique=True))
    mods = []
    for idx, name in enumerate(names):
        kind = draw(st.sampled_from(kinds))
        m = dict(name=name, kind=kind, area=None, area_scalar=True, center=None, ar=None, rects=[], flip=False, tfixed=False,
                 flat=False)
        ox, oy = draw(_i(0, 30)), draw(_i(0, 30))
        if kind == "soft":
            if regions_ok and draw(_i(0, 3)) == 0:
                regs = draw(st.lists(st.sampled_from(["_"] + REGIONS), min_size=1, max_size=3, unique=True))
                m["area"] = {r: draw(_i(1, 40)) for r in regs}
                m["area_scalar"] = False
            else:
                m["area"] = {"_": draw(_i(1, 60))}
                m["area_scalar"] = draw(_i(0, 4)) != 0
            shape = draw(st.sampled_from([0, 1, 2, 2, 3]))
            if shape == 1:  # packed rectangles, possibly in regions
                rs = draw(L.packing(10, 10, 1, 4, 5))
                m["rects"] = [[r[0] + ox, r[1] + oy, r[2] + ox, r[3] + oy,
                               draw(st.sampled_from(REGIONS)) if regions_ok and draw(_i(0, 3)) == 0 else None] for r in rs]
                if soft_rect_overlap and draw(_i(0, 5)) == 0 and m["rects"]:
                    r = m["rects"][0]
                    m["rects"].append([r[0], r[1], r[2] + 1, r[3] + 2, None])
            elif shape == 2:
                # (one time in three on a ten times finer scale: sizes such as 0.5, 0.7, 1.4, 3, 2 - ints and floats in one module)
                rs, roles = draw(stog_rects(ox, oy))
                if draw(_i(0, 2)) == 0:
                    # the same orthogon ten times larger, with branch depths that are not multiples of ten: on a 0.1 lattice the trunk
                    # then has integral sizes (ints in the document) and the branches fractional ones (floats)
                    rs = [[v * 10 for v in r] for r in rs]
                    for r, role in zip(rs, roles):
                        dlt = draw(_i(1, 9))
                        if role == "N":
                            r[3] -= dlt
                        elif role == "S":
                            r[1] += dlt
                        elif role == "E":
                            r[2] -= dlt
                        elif role == "W":
                            r[0] += dlt
                if draw(st.booleans()):
                    rs = list(draw(st.permutations(rs)))  # the trunk need not be listed first: recognition will reorder the list
                m["rects"] = [r + [None] for r in rs]
            if all_centres or not m["rects"] and draw(_i(0, 3)) != 0 or m["rects"] and draw(_i(0, 3)) == 0:
                m["center"] = [draw(_i(0, 80)), draw(_i(0, 80))]
            if draw(_i(0, 2)) == 0:
                if draw(st.booleans()):
                    m["ar"] = draw(st.sampled_from(AR_SCALAR))
                else:
                    m["ar"] = [draw(st.sampled_from(AR_LO)), draw(st.sampled_from(AR_HI))]
        elif kind in ("hard", "fixed"):
            if draw(st.booleans()):
                rs, _ = draw(stog_rects(ox, oy))
                if draw(st.booleans()):
                    rs = list(draw(st.permutations(rs)))  # (the trunk need not be listed first)
                stog = True
            else:
                rs = [[r[0] + ox, r[1] + oy, r[2] + ox, r[3] + oy] for r in draw(L.packing(8, 8, 1, 4, 4))]
                stog = len(rs) == 1
                if not rs:
                    rs = [[ox, oy, ox + 1, oy + 2]]
                    stog = True
            m["rects"] = [r + [None] for r in rs]
            if kind == "hard" and allow_flip and stog and draw(_i(0, 2)) == 0:
                m["flip"] = True
        else:  # terminal
            if pads and draw(_i(0, 3)) == 0:
                # an I/O pad: a terminal with a shape (its centre is the one of its rectangles)
                m["rects"] = [[ox, oy, ox + draw(_i(1, 3)), oy + draw(_i(1, 3)), None]]
                if draw(st.booleans()):
                    m["rects"].append([m["rects"][0][0], m["rects"][0][3], m["rects"][0][0] + 1, m["rects"][0][3] + 1, None])
            elif all_centres or draw(_i(0, 3)) != 0:
                m["center"] = [draw(_i(0, 80)), draw(_i(0, 80))]
                m["tfixed"] = draw(_i(0, 3)) == 0
        if len(m["rects"]) == 1 and draw(_i(0, 2)) == 0:
            m["flat"] = True
        mods.append(m)
    nets = []
    if n >= 1:
        for _ in range(draw(_i(0, max_nets))):
            arity = draw(st.sampled_from([2, 2, 2, 3, 3, 4, 5, 6]))
            members = [names[draw(_i(0, n - 1))] for _ in range(arity)]
            nets.append(dict(m=members, w=draw(st.sampled_from(WEIGHTS))))
    return dict(unit=unit, modules=mods, nets=nets, nets_first=draw(_i(0, 3)) == 0)


# ---- documents -----------------------------------------------------------------------------------

def rect_doc(r, unit):
    cs = L.csr(r[:4], unit)
    out = [X.num(v) for v in cs]
    if r[4] is not None:
        out.append(r[4])
    return out


def module_doc(m, unit):
    u = Fr(unit)
    d = {}
    if m["kind"] == "soft":
        if m["area_scalar"]:
            d["area"] = X.num(m["area"]["_"] * u * u)
        else:
            d["area"] = {r: X.num(a * u * u) for r, a in m["area"].items()}
        if m["ar"] is not None:
            d["aspect_ratio"] = m["ar"]
    elif m["kind"] == "hard":
        d["hard"] = True
        if m["flip"]:
            d["flip"] = True
    elif m["kind"] == "fixed":
        d["fixed"] = True
    else:
        d["terminal"] = True
        if m["tfixed"]:
            d["fixed"] = True
    if m["center"] is not None:
        d["center"] = [X.num(m["center"][0] * u / 2), X.num(m["center"][1] * u / 2)]
    if m["rects"]:
        rl = [rect_doc(r, unit) for r in m["rects"]]
        d["rectangles"] = rl[0] if m["flat"] and len(rl) == 1 else rl
    return d


def to_tree(model):
    mods = {m["name"]: module_doc(m, model["unit"]) for m in model["modules"]}
    nets = [list(e["m"]) + ([e["w"]] if e["w"] is not None else []) for e in model["nets"]]
    if model.get("nets_first"):
        return {"Nets": nets, "Modules": mods}  # (the two sections may come in either order)
    return {"Modules": mods, "Nets": nets}


def _q(s):
    return "'%s'" % s


def _num(v):
    if isinstance(v, bool):
        return "true" if v else "false"
    if isinstance(v, int):
        return str(v)
    return repr(float(v))


def _flow(v):
    if isinstance(v, dict):
        return "{" + ", ".join("%s: %s" % (_q(k), _flow(x)) for k, x in v.items()) + "}"
    if isinstance(v, list):
        return "[" + ", ".join(_flow(x) for x in v) + "]"
    if isinstance(v, str):
        return _q(v)
    return _num(v)


def to_text(model):
    t = to_tree(model)
    ms = "Modules: {\n" + ",\n".join("  %s: %s" % (_q(k), _flow(v)) for k, v in t["Modules"].items()) + "\n}\n"
    ns = "Nets: %s\n" % _flow(t["Nets"])
    return ns + ms if model.get("nets_first") else ms + ns


# ---- expected (definition) --------------------------------------------------------------------------

def exp_rects(m, unit):
    return [L.to_fr(r[:4], unit) for r in m["rects"]]


def exp_area(m, unit):
    u = Fr(unit)
    if m["kind"] == "soft":
        return sum(m["area"].values()) * u * u
    if m["kind"] in ("hard", "fixed"):
        return sum((X.area(r) for r in exp_rects(m, unit)), Fr(0))
    return Fr(0)


def exp_area_regions(m, unit):
    u = Fr(unit)
    if m["kind"] == "soft":
        return {r: a * u * u for r, a in m["area"].items()}
    if m["kind"] in ("hard", "fixed"):
        return {"_": exp_area(m, unit)}
    return {}


def exp_center(m, unit):
    u = Fr(unit)
    rs = exp_rects(m, unit)
    if rs:
        A = sum(X.area(r) for r in rs)
        cx = sum(X.area(r) * (r[0] + r[2]) / 2 for r in rs) / A
        cy = sum(X.area(r) * (r[1] + r[3]) / 2 for r in rs) / A
        return (cx, cy)
    if m["center"] is not None:
        return (m["center"][0] * u / 2, m["center"][1] * u / 2)
    return None


def exp_ar(m):
    a = m["ar"]
    if a is None:
        return None
    if isinstance(a, list):
        return (float(a[0]), float(a[1]))
    v = float(a)
    return (min(v, 1 / v), max(v, 1 / v))


def exp_weight(e):
    return 1.0 if e["w"] is None else float(e["w"])
