"""Allocation generator.  Case:
  dict(unit, cells=[dict(r=[x0,y0,x1,y1], a={module: ratio}, d=depth, fixed=bool, region=str)], form='api'|'tree'|'text')
"""
from fractions import Fraction as Fr

from hypothesis import strategies as st

from frame.allocation.allocation import Allocation
from frame.geometry.geometry import Point, Rectangle, Shape
from gen import lattice as L
from vfw import exact as X

_i = st.integers
RATIOS = [0, 0.0, 1, 1.0, 0.5, 0.25, 0.3, 0.1, 0.75, 0.9, 0.05, 0.6, 0.45, 0.999, 0.01]
UNITS = ["1", "1", "0.5", "0.125", "2", "16", "0.1", "0.3", "0.025", "2.5", "7", "0.0001", "1000"]


@st.composite
def alloc_case(draw, allow_fixed=True, allow_empty=True, sliver=None, max_leaves=8, units=None):
    unit = draw(st.sampled_from(units or UNITS))
    sliver = draw(_i(0, 4)) == 0 if sliver is None else sliver
    ox, oy = draw(st.sampled_from([0, 0, 1, 3])), draw(st.sampled_from([0, 0, 2]))
    if sliver and draw(_i(0, 3)) == 0:
        # a flat wide cell A, two cells on top of it that meet above its middle, and two small cells at its side that meet at a
        # height e with L/100 < e < 2L/100: the horizontal line y = e leaves too thin a piece of A (1 % of its width 2L) but a
        # legal one once A has been cut at x = L (either orientation)
        Lh = draw(_i(150, 400))
        h = draw(_i(10, 30))
        e = draw(_i(Lh // 100 + 1, max(Lh // 100 + 1, min(h - 1, 2 * Lh // 100 - 1))))
        wr, ht = draw(_i(5, 40)), draw(_i(10, 60))
        leaves = [[ox, oy, ox + 2 * Lh, oy + h], [ox, oy + h, ox + Lh, oy + h + ht], [ox + Lh, oy + h, ox + 2 * Lh, oy + h + ht],
                  [ox + 2 * Lh, oy, ox + 2 * Lh + wr, oy + e], [ox + 2 * Lh, oy + e, ox + 2 * Lh + wr, oy + h]]
        if draw(st.booleans()):
            leaves = [[l[1] - oy + ox, l[0] - ox + oy, l[3] - oy + ox, l[2] - ox + oy] for l in leaves]  # transposed
    elif sliver:
        W, H = draw(_i(100, 400)), draw(_i(100, 400))
        leaves = [[ox, oy, ox + W, oy + H]]
        for _ in range(draw(_i(1, max_leaves - 1))):
            k = draw(_i(0, len(leaves) - 1))
            r = leaves[k]
            w, h = r[2] - r[0], r[3] - r[1]
            vertical = draw(st.booleans())
            ext = w if vertical else h
            if ext < 2:
                continue
            off = draw(st.sampled_from([1, 1, 2, 3, 5])) if draw(st.booleans()) else draw(_i(1, ext - 1))
            off = min(off, ext - 1)
            if draw(st.booleans()):
                off = ext - off
            if vertical:
                c = r[0] + off
                leaves[k:k + 1] = [[r[0], r[1], c, r[3]], [c, r[1], r[2], r[3]]]
            else:
                c = r[1] + off
                leaves[k:k + 1] = [[r[0], r[1], r[2], c], [r[0], c, r[2], r[3]]]
    elif draw(_i(0, 9)) == 0:
        # almost square cells: one side longer than the other by 0.02 - 0.1 % (the longer side is still the one to halve)
        N = draw(_i(1001, 5000))
        d = draw(_i(1, 4))
        W, H = (N, N + d) if draw(st.booleans()) else (N + d, N)
        leaves = [[ox, oy, ox + W, oy + H]]
        if draw(st.booleans()):
            leaves.append([ox + W, oy, ox + 2 * W, oy + H])
    else:
        W, H = draw(_i(1, 10)), draw(_i(1, 10))
        leaves = draw(L.guillotine(W, H, max_leaves, ox, oy))
    # drop some leaves
    if len(leaves) > 1 and draw(_i(0, 2)) == 0:
        keep = [draw(st.booleans()) for _ in leaves]
        if not any(keep):
            keep[0] = True
        leaves = [l for l, k in zip(leaves, keep) if k]
    nmods = draw(_i(1, 4))
    mods = ["M%d" % i for i in range(nmods)]
    cells = []
    nfixed = 0
    for l in leaves:
        fixed = allow_fixed and nfixed < 2 and draw(_i(0, 5)) == 0
        if fixed:
            a = {"F%d" % nfixed: 1.0}
            nfixed += 1
        else:
            k = draw(st.sampled_from([0, 1, 1, 2, 2, 3] if allow_empty else [1, 1, 2, 2, 3]))
            chosen = draw(st.permutations(mods))[:k]
            a = {m: draw(st.sampled_from(RATIOS)) for m in chosen}
        cells.append(dict(r=l, a=a, d=draw(st.sampled_from([0, 0, 0, 1, 2, 3])), fixed=fixed,
                          region=draw(st.sampled_from(["_", "_", "_", "A"]))))
    # every module that appears must own some area (the constructor divides by the module's total area)
    tot = {}
    for c in cells:
        for m, v in c["a"].items():
            tot[m] = tot.get(m, 0) + v
    for m, v in tot.items():
        if v == 0:
            for c in cells:
                if m in c["a"]:
                    c["a"][m] = 0.5
                    break
    if not any(c["a"] for c in cells):
        cells[0]["a"] = {"M0": 0.5}
        cells[0]["fixed"] = False
    form = "api" if any(c["fixed"] for c in cells) else draw(st.sampled_from(["api", "tree", "text"]))
    if any(c["fixed"] for c in cells) and draw(st.booleans()):
        # the cells of fixed modules are the modules' own rectangles in a real run: fixed AND hard
        for c in cells:
            if c["fixed"] and c["region"] == "_":
                c["hard"] = True
    return dict(unit=unit, cells=cells, form=form, touched=form == "api" and draw(st.booleans()))


def cell_rect(c, unit):
    cx, cy, w, h = L.csr(c["r"], unit)
    return Rectangle(center=Point(X.num(cx), X.num(cy)), shape=Shape(X.num(w), X.num(h)), region=c["region"], fixed=c["fixed"], hard=bool(c.get("hard")))


def tree(case):
    out = []
    for c in case["cells"]:
        cs = [X.num(v) for v in L.csr(c["r"], case["unit"])]
        if c["region"] != "_":
            cs.append(c["region"])
        e = [cs, dict(c["a"])]
        if c["d"] > 0:
            e.append(c["d"])
        out.append(e)
    return out


def text(case):
    lines = []
    for e in tree(case):
        r = "[" + ", ".join(("'%s'" % v) if isinstance(v, str) else repr(v) for v in e[0]) + "]"
        a = "{" + ", ".join("'%s': %r" % (k, v) for k, v in e[1].items()) + "}"
        lines.append("- [%s, %s%s]" % (r, a, (", %d" % e[2]) if len(e) > 2 else ""))
    return "\n".join(lines) + "\n"


def build(case):
    try:
        return _build(case)
    except Exception as e:
        from vfw.core import Violation
        if isinstance(e, Violation):
            raise
        # the generated allocations are valid by construction (cells of a guillotine partition, ratios in [0, 1] per module); on the
        # unchanged tree none is ever rejected
        raise Violation("a valid allocation (%s form) is rejected by the constructor: %s: %s\n%s" % (
            case["form"], type(e).__name__, str(e)[:300], text(case)[:600]), "valid-allocation-rejected")


def _build(case):
    if case["form"] == "api":
        rects = [cell_rect(c, case["unit"]) for c in case["cells"]]
        if case.get("touched"):
            # the cells are Rectangle objects with a past: created elsewhere with another size, looked at, then moved and resized IN
            # PLACE (r.center.x = ..., r.shape.w = ...) to where they belong - as the placement tools do
            for r in rects:
                cx, cy, w, h = r.center.x, r.center.y, r.shape.w, r.shape.h
                r.center.x, r.center.y, r.shape.w, r.shape.h = cx + 3 * w, cy + h, 2 * w, h / 2
                r.bounding_box, r.area, r.area_overlap(rects[0])
                r.center.x, r.center.y, r.shape.w, r.shape.h = cx, cy, w, h
        a = Allocation([(r, dict(c["a"]), c["d"]) for r, c in zip(rects, case["cells"])])
    elif case["form"] == "tree":
        t = tree(case)
        a = Allocation(t)
        if t != tree(case):
            from vfw.core import Violation
            raise Violation("Allocation(description) altered the caller's description: now %r, was %r" % (t, tree(case)), "description-altered")
    else:
        a = Allocation(text(case))
    # the object holds what the description says (cells in order, every listed module with its ratio - zero entries included -
    # and the recorded depth): everything the checks conclude about refinement is relative to the DESCRIBED allocation
    got = [(dict(x.alloc), x.depth) for x in a.allocations]
    want = [(dict(c["a"]), c["d"]) for c in case["cells"]]
    if got != want:
        from vfw.core import Violation
        k = next((i for i, (g, w) in enumerate(zip(got, want)) if g != w), min(len(got), len(want)))
        raise Violation("Allocation built from the %s form holds %s for cell %d, the description says %s" % (
            case["form"], got[k] if k < len(got) else None, k, want[k] if k < len(want) else None), "constructed-differs")
    return a


def snapshot(alloc):
    """[(exact rect, region, fixed, map, depth)]"""
    return [(X.of_frame(a.rect), a.rect.region, a.rect.fixed, dict(a.alloc), a.depth) for a in alloc.allocations]


def modules_of(alloc_snapshot):
    s = set()
    for _, _, _, m, _ in alloc_snapshot:
        s.update(m)
    return sorted(s)


def exp_area_center(snap):
    """module -> (area, (cx, cy)) computed exactly from a snapshot (ratios as exact binary values)"""
    out = {}
    for e, _, _, m, _ in snap:
        A = X.area(e)
        for name, ratio in m.items():
            a = Fr(ratio) * A
            t = out.setdefault(name, [Fr(0), Fr(0), Fr(0)])
            t[0] += a
            t[1] += a * (e[0] + e[2]) / 2
            t[2] += a * (e[1] + e[3]) / 2
    return {k: (v[0], (v[1] / v[0], v[2] / v[0])) for k, v in out.items() if v[0] != 0}
