"""Legal floorplans for the legaliser (C09, C19): the die is a grid of equal square slots, each module lives in its own slot
and is a single-trunk orthogon whose rectangles all respect the aspect-ratio limit.  A floorplan case is

  dict(unit, S=slot side, cols, rows, ratio=max ratio, modules=[dict(name, kind, slot=[c, r], floats=bool,
       struct={side: k}, draws=[draw0, draw1], area_num/area_den)], nets=[...])
  draw = dict(off=[ox, oy], trunk=[w, h], br={side: [[lo, w, d], ...]})   (integers, slot-relative)

draw0 is the input configuration F0, draw1 a second legal configuration F1 with the same role structure (for hard and
fixed modules draw1 is a translation of draw0, for fixed ones the identity).
"""
from fractions import Fraction as Fr

from hypothesis import strategies as st

_i = st.integers
SIDES = "NSEW"
RATIOS = [1.5, 2, 2.0, 3, 5]


def ok_ratio(w, h, R):
    return max(Fr(w, h), Fr(h, w)) <= Fr(R)


@st.composite
def _shape(draw, struct, R, S):
    """one legal drawing of a module with the given structure inside an S x S slot (margin >= 2 on every side)"""
    need_w = max(struct.get("N", 0), struct.get("S", 0), 1)
    need_h = max(struct.get("E", 0), struct.get("W", 0), 1)
    for _ in range(30):
        tw = draw(_i(max(2, need_w), 6))
        th = draw(_i(max(2, need_h), 6))
        if draw(_i(0, 3)) == 0 and Fr(R).denominator <= 2:
            # a trunk exactly on the aspect-ratio limit (6 x 3 for R = 2, 6 x 4 for R = 1.5, 6 x 2 for R = 3)
            a = draw(st.sampled_from([2, 4, 6]))
            b = Fr(a) / Fr(R)
            if b.denominator == 1 and b >= max(2, min(need_w, need_h)):
                tw, th = (a, int(b)) if draw(st.booleans()) else (int(b), a)
                if tw < need_w or th < need_h:
                    tw, th = th, tw
        if ok_ratio(tw, th, R) and tw >= need_w and th >= need_h:
            break
    else:
        tw = th = max(2, need_w, need_h)
    br = {}
    depth = {}
    for side in SIDES:
        k = struct.get(side, 0)
        if not k:
            continue
        ext = tw if side in "NS" else th
        # k consecutive intervals inside [0, ext]: widths >= 1
        widths = [1] * k
        spare = ext - k
        for j in range(k):
            add = draw(_i(0, spare))
            widths[j] += add
            spare -= add
        gaps = [0] * (k + 1)
        for j in range(k + 1):
            g = draw(_i(0, spare))
            gaps[j] = g
            spare -= g
        lst = []
        pos = gaps[0]
        dmax = 0
        for j in range(k):
            w = widths[j]
            # depth with admissible ratio and area <= trunk area
            cands = [d for d in range(1, 4) if ok_ratio(w, d, R) and w * d <= tw * th]
            if not cands:
                cands = [d for d in range(1, 7) if ok_ratio(w, d, R) and w * d <= tw * th] or [w]
            d = cands[draw(_i(0, len(cands) - 1))]
            lst.append([pos, w, d])
            dmax = max(dmax, d)
            pos += w + (gaps[j + 1] if j + 1 < k else 0)
        br[side] = lst
        depth[side] = dmax
    # bounding box of the shape relative to the trunk's lower-left corner
    left, right = depth.get("W", 0), depth.get("E", 0)
    down, up = depth.get("S", 0), depth.get("N", 0)
    bw, bh = left + tw + right, down + th + up
    margin = 2
    ox = draw(_i(margin + left, max(margin + left, S - margin - (tw + right))))
    oy = draw(_i(margin + down, max(margin + down, S - margin - (th + up))))
    return dict(off=[ox, oy], trunk=[tw, th], br=br), (bw, bh)


@st.composite
def floorplan(draw, max_modules=4, units=None):
    unit = draw(st.sampled_from(units or ["1", "1", "0.5", "0.25", "2", "0.1", "2.5"]))
    R = draw(st.sampled_from(RATIOS))
    S = 24
    cols, rows = draw(st.sampled_from([(1, 1), (2, 1), (1, 2), (2, 2), (2, 2), (3, 1)]))
    slots = [[c, r] for r in range(rows) for c in range(cols)]
    n = draw(_i(1, min(max_modules, len(slots))))
    slots = list(draw(st.permutations(slots)))[:n]
    mods = []
    for i, slot in enumerate(slots):
        kind = draw(st.sampled_from(["soft", "soft", "hard", "hard", "fixed"]))
        struct = {}
        if draw(_i(0, 3)) != 0:
            for side in SIDES:
                k = draw(st.sampled_from([0, 0, 0, 1, 1, 2, 2, 3]))
                if k:
                    struct[side] = k
            while sum(struct.values()) > 5:
                struct.pop(sorted(struct)[0])
        d0, _ = draw(_shape(struct, R, S))
        if kind == "soft":
            d1, _ = draw(_shape(struct, R, S))
        elif kind == "hard":
            # rigid translation of d0 inside the slot
            left = max([b[2] for b in d0["br"].get("W", [])] + [0])
            right = max([b[2] for b in d0["br"].get("E", [])] + [0])
            down = max([b[2] for b in d0["br"].get("S", [])] + [0])
            up = max([b[2] for b in d0["br"].get("N", [])] + [0])
            ox = draw(_i(2 + left, max(2 + left, S - 2 - (d0["trunk"][0] + right))))
            oy = draw(_i(2 + down, max(2 + down, S - 2 - (d0["trunk"][1] + up))))
            d1 = dict(off=[ox, oy], trunk=list(d0["trunk"]), br={k: [list(b) for b in v] for k, v in d0["br"].items()})
        else:
            d1 = dict(off=list(d0["off"]), trunk=list(d0["trunk"]), br={k: [list(b) for b in v] for k, v in d0["br"].items()})
        mods.append(dict(name="%s%d" % (kind[0].upper(), i), kind=kind, slot=slot, floats=draw(st.booleans()), struct=struct,
                         draws=[d0, d1], slack=draw(st.sampled_from([1, 0.9, 0.5, 0.5]))))
    names = [m["name"] for m in mods]
    nets = []
    for _ in range(draw(_i(0, 3))):
        ar = draw(st.sampled_from([2, 2, 3]))
        nets.append(dict(m=[names[draw(_i(0, n - 1))] for _ in range(ar)], w=draw(st.sampled_from([None, 1, 2, 0.5, 3.5]))))
    return dict(unit=unit, S=S, cols=cols, rows=rows, ratio=R, modules=mods, nets=nets)


def rects_of(m, which, S):
    """list of (role, [x0, y0, x1, y1]) in integer die coordinates: trunk first, then N, S, E, W branches in order"""
    d = m["draws"][which]
    bx, by = m["slot"][0] * S + d["off"][0], m["slot"][1] * S + d["off"][1]
    tw, th = d["trunk"]
    out = [("T", [bx, by, bx + tw, by + th])]
    for side in SIDES:
        for lo, w, dep in d["br"].get(side, []):
            if side == "N":
                out.append((side, [bx + lo, by + th, bx + lo + w, by + th + dep]))
            elif side == "S":
                out.append((side, [bx + lo, by - dep, bx + lo + w, by]))
            elif side == "E":
                out.append((side, [bx + tw, by + lo, bx + tw + dep, by + lo + w]))
            else:
                out.append((side, [bx - dep, by + lo, bx, by + lo + w]))
    return out


def area_of(rects):
    return sum((r[2] - r[0]) * (r[3] - r[1]) for _, r in rects)


def required_area_units(m, S):
    """area requirement of a soft module in unit^2 (a Fraction): slack x min(area F0, area F1)"""
    a = min(area_of(rects_of(m, 0, S)), area_of(rects_of(m, 1, S)))
    return Fr(a) * Fr(m["slack"])
