"""Lattice geometry generators.  Coordinates are integers times a unit; the unit is a string holding a
terminating decimal ('0.125', '0.1', '2.5', '0.0025') so that the case is exact and JSON-serialisable."""
from fractions import Fraction as Fr

from hypothesis import strategies as st

DYADIC_UNITS = ["0.03125", "0.125", "0.25", "0.5", "1", "2", "16"]
DECIMAL_UNITS = ["0.1", "0.01", "0.3", "0.7", "0.025", "0.0025", "2.5", "7", "0.2", "1.1", "10", "30"]


def dyadic_unit():
    return st.sampled_from(DYADIC_UNITS)


def decimal_unit():
    return st.sampled_from(DECIMAL_UNITS)


def any_unit():
    return st.one_of(dyadic_unit(), decimal_unit())


@st.composite
def int_rect(draw, W, H, max_w=None, max_h=None):
    """(x0, y0, x1, y1) with 0 <= x0 < x1 <= W, 0 <= y0 < y1 <= H"""
    x0 = draw(st.integers(0, W - 1))
    x1 = draw(st.integers(x0 + 1, min(W, x0 + (max_w or W))))
    y0 = draw(st.integers(0, H - 1))
    y1 = draw(st.integers(y0 + 1, min(H, y0 + (max_h or H))))
    return [x0, y0, x1, y1]


def overlaps(a, b):
    return a[0] < b[2] and b[0] < a[2] and a[1] < b[3] and b[1] < a[3]


@st.composite
def packing(draw, W, H, min_n=0, max_n=8, max_side=None):
    """disjoint integer rectangles inside [0,W]x[0,H], built by construction (candidates that collide are dropped)"""
    cands = draw(st.lists(int_rect(W, H, max_side, max_side), min_size=min_n, max_size=max_n + 3))
    kept = []
    for c in cands:
        if len(kept) >= max_n:
            break
        if not any(overlaps(c, k) for k in kept):
            kept.append(c)
    return kept


@st.composite
def guillotine(draw, W, H, max_leaves=10, x0=0, y0=0):
    """guillotine partition of [x0,x0+W]x[y0,y0+H] into integer rectangles"""
    leaves = [[x0, y0, x0 + W, y0 + H]]
    ncuts = draw(st.integers(0, max_leaves - 1))
    for _ in range(ncuts):
        idx = draw(st.integers(0, len(leaves) - 1))
        r = leaves[idx]
        w, h = r[2] - r[0], r[3] - r[1]
        opts = []
        if w > 1:
            opts.append("v")
        if h > 1:
            opts.append("h")
        if not opts:
            continue
        o = draw(st.sampled_from(opts))
        if o == "v":
            c = draw(st.integers(r[0] + 1, r[2] - 1))
            leaves[idx:idx + 1] = [[r[0], r[1], c, r[3]], [c, r[1], r[2], r[3]]]
        else:
            c = draw(st.integers(r[1] + 1, r[3] - 1))
            leaves[idx:idx + 1] = [[r[0], r[1], r[2], c], [r[0], c, r[2], r[3]]]
    return leaves


def to_fr(rect, unit):
    u = Fr(unit)
    return tuple(Fr(v) * u for v in rect)


def csr(rect, unit):
    """centre/shape Fractions (cx, cy, w, h) of an integer rectangle"""
    u = Fr(unit)
    x0, y0, x1, y1 = (Fr(v) * u for v in rect)
    return ((x0 + x1) / 2, (y0 + y1) / 2, x1 - x0, y1 - y0)
