"""File names for the file-based forms of the checks: FRAME takes a string without ': ' for a file name, so blanks, dots,
parentheses and sub-directories in a path are all valid."""
import os
import tempfile

NAMES = ["plain.yaml", "my design.yaml", "v1.2 (final).yaml", "no_extension", "dir with blank/chip.yaml", "a  b.c.yaml", "UPPER lower.YAML",
         "trailing blank .yaml"]


def path(k):
    """an absolute path in the run's scratch directory (removed with it); k selects the name"""
    p = os.path.join(tempfile.gettempdir(), "files-%d" % os.getpid(), NAMES[k % len(NAMES)])
    os.makedirs(os.path.dirname(p), exist_ok=True)
    return p


def write(k, text):
    p = path(k)
    with open(p, "w") as f:
        f.write(text)
    return p
