"""Single-trunk orthogons on an integer lattice: trunk + pairwise disjoint branches, each abutting one side of the trunk
within that side's extent."""
from hypothesis import strategies as st

_i = st.integers


@st.composite
def stog_rects(draw, ox=0, oy=0, max_per_side=2, max_trunk=6, max_depth=4, max_rects=5):
    """returns (rects, roles): rects[0] is the trunk placed so that every coordinate is >= (ox, oy);
    roles[i] in 'T','N','S','E','W'"""
    tw, th = draw(_i(1, max_trunk)), draw(_i(1, max_trunk))
    tx0, ty0 = ox + max_depth, oy + max_depth
    T = [tx0, ty0, tx0 + tw, ty0 + th]
    rects, roles = [T], ["T"]
    for side in draw(st.permutations(["N", "S", "E", "W"])):
        if len(rects) >= max_rects:
            break
        k = draw(_i(0, max_per_side))
        if k == 0:
            continue
        ext = tw if side in "NS" else th
        # k disjoint intervals inside [0, ext]: choose 2k distinct-or-equal sorted cut points, keep non-empty ones
        cuts = sorted(draw(st.lists(_i(0, ext), min_size=2 * k, max_size=2 * k)))
        for j in range(k):
            lo, hi = cuts[2 * j], cuts[2 * j + 1]
            if hi <= lo or len(rects) >= max_rects:
                continue
            d = draw(_i(1, max_depth))
            if side == "N":
                rects.append([tx0 + lo, T[3], tx0 + hi, T[3] + d])
            elif side == "S":
                rects.append([tx0 + lo, T[1] - d, tx0 + hi, T[1]])
            elif side == "E":
                rects.append([T[2], ty0 + lo, T[2] + d, ty0 + hi])
            else:
                rects.append([T[0] - d, ty0 + lo, T[0], ty0 + hi])
            roles.append(side)
    return rects, roles
