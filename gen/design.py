"""Generators of dies (with regions and fixed rectangles) and helpers that turn an exact lattice description into the
documents FRAME reads.  A die case is
  dict(unit='0.1', W=int, H=int, regions=[[x0,y0,x1,y1,tag],...], fixed=[[[x0,y0,x1,y1],...] per fixed module])
all integers being multiples of the unit.
"""
from fractions import Fraction as Fr

from hypothesis import strategies as st

from gen import lattice as L
from vfw import exact as X

TAGS = ["#", "#", "A", "B", "LUT"]
_i = st.integers

UNITS_EXACT = ["0.125", "0.25", "0.5", "1", "2", "16"]
UNITS_DEC = ["0.1", "0.1", "0.01", "0.3", "0.7", "0.025", "0.0025", "2.5", "7", "0.2", "1.1", "10", "30"]


@st.composite
def die_case(draw, max_regions=8, max_fixed=3, min_side=1, max_side=12, units=None, allow_fixed=True, force_fixed=False):
    unit = draw(st.sampled_from(units or (UNITS_EXACT + UNITS_DEC)))
    W = draw(_i(min_side, max_side))
    H = draw(_i(min_side, max_side))
    nreg = draw(_i(0, max_regions))
    pack = draw(L.packing(W, H, 0, nreg + (max_fixed if allow_fixed else 0), max_side=max(2, max(W, H) // 2 + 1)))
    if force_fixed and pack:
        nfix = draw(_i(1, min(max_fixed, len(pack))))
    else:
        nfix = draw(_i(0, min(max_fixed, len(pack)))) if allow_fixed and draw(_i(0, 2)) == 0 else 0
    fixed_rects = pack[:nfix]
    regions = [r + [draw(st.sampled_from(TAGS))] for r in pack[nfix:]]
    # group fixed rectangles into modules (1-2 rectangles each)
    fixed = []
    i = 0
    while i < len(fixed_rects):
        k = 2 if i + 1 < len(fixed_rects) and draw(st.booleans()) else 1
        fixed.append(fixed_rects[i:i + k])
        i += k
    return dict(unit=unit, W=W, H=H, regions=regions, fixed=fixed)


def rect_entry(r, unit, tag=None, literal=False):
    """[cx, cy, w, h(, tag)] of an integer rectangle, as numbers (what a YAML reader yields) or decimal literals"""
    cs = L.csr(r[:4], unit)
    vals = [X.dec(v) if literal else X.num(v) for v in cs]
    if tag is not None:
        vals.append(tag)
    return vals


def die_tree(c):
    u = Fr(c["unit"])
    d = {"width": X.num(c["W"] * u), "height": X.num(c["H"] * u)}
    if c["regions"]:
        d["regions"] = [rect_entry(r, c["unit"], r[4]) for r in c["regions"]]
        if c.get("flat") and len(c["regions"]) == 1:
            d["regions"] = d["regions"][0]  # the reader also takes a single rectangle without the enclosing list
    return d


def die_text(c, flow=True):
    u = Fr(c["unit"])
    s = "width: %s\nheight: %s\n" % (X.dec(c["W"] * u), X.dec(c["H"] * u))
    if c["regions"] and c.get("flat") and len(c["regions"]) == 1:
        r = c["regions"][0]
        s += "regions: [%s, '%s']\n" % (", ".join(rect_entry(r, c["unit"], None, True)), r[4])
    elif c["regions"]:
        if flow:
            s += "regions: [%s]\n" % ", ".join(
                "[%s, '%s']" % (", ".join(rect_entry(r, c["unit"], None, True)), r[4]) for r in c["regions"])
        else:
            s += "regions:\n"
            for r in c["regions"]:
                e = rect_entry(r, c["unit"], None, True)
                s += "  - [%s, '%s']\n" % (", ".join(e), r[4])
    return s


def fixed_netlist_tree(c, extra_modules=None):
    """netlist whose fixed modules occupy c['fixed']"""
    mods = {}
    for k, rl in enumerate(c["fixed"]):
        mods["F%d" % k] = {"fixed": True, "rectangles": [rect_entry(r, c["unit"]) for r in rl]}
    if extra_modules:
        mods.update(extra_modules)
    return {"Modules": mods, "Nets": []}


def exact_die(c):
    u = Fr(c["unit"])
    return (Fr(0), Fr(0), c["W"] * u, c["H"] * u)


def exact_regions(c):
    u = Fr(c["unit"])
    return [tuple(Fr(v) * u for v in r[:4]) for r in c["regions"]]


def exact_fixed(c):
    u = Fr(c["unit"])
    return [tuple(Fr(v) * u for v in r) for rl in c["fixed"] for r in rl]
