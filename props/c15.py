"""C15  Grid orthogon decomposition finds exactly the single-trunk decompositions (Strop, strop_decomposition)."""
from fractions import Fraction as Fr

import numpy as np
from hypothesis import strategies as st

from frame.geometry.geometry import Point, Rectangle
from frame.netlist.netlist import Netlist
from gen.stog import stog_rects
from tools.floorset_parser.floor_set_manager.strop import Strop
from tools.floorset_parser.floor_set_manager.utils.utils import strop_decomposition
from vfw import exact as X
from vfw.core import Sub, Violation

PROP = "C15"
RULE = ("grids: ALL 0/1 grids with rows x cols <= 16 cells (quick) / <= 20 cells (thorough), every shape (1x1 .. 4x4, 2x8, 1x16, "
        "4x5, 2x10, ...), enumerated and sharded; Strop(m).is_strop must equal a brute-force existence test over ALL all-ones "
        "rectangles as trunk, and every offered instance must partition the one-cells into a trunk plus branches abutting their "
        "side within the trunk's extent.  random: grids up to 8x8 built from orthogons, near-orthogons (cells flipped), rings, "
        "staircases, two components.  polygons: orthogon shapes on non-uniform fractional lattices traced to vertex lists (both "
        "orientations, every start vertex, with and without redundant collinear vertices, as Points or numpy rows) through "
        "strop_decomposition and Netlist loading.  non-trivial = >= 3 one-cells spanning >= 2 rows and >= 2 columns (grids); "
        ">= 2 rectangles (polygons); distinct = distinct grid / polygon.")
ASSUMPTIONS = [
    "existence is decided by the statement's definition: some all-ones rectangle T such that every other one-cell lies above/below T within its columns "
    "or left/right of T within its rows and the straight run from it to T is all ones",
    "polygon vertices are exactly representable lattice points times a decimal unit; areas compared with 1e-9 relative tolerance",
]
_i = st.integers


def parse(rows, cols, bits):
    return [[(bits >> (i * cols + j)) & 1 for j in range(cols)] for i in range(rows)]


def decomposable(m):
    R, C = len(m), len(m[0])
    ones = [(i, j) for i in range(R) for j in range(C) if m[i][j]]
    if not ones:
        return False
    # prefix sums to test all-ones rectangles
    P = [[0] * (C + 1) for _ in range(R + 1)]
    for i in range(R):
        for j in range(C):
            P[i + 1][j + 1] = m[i][j] + P[i][j + 1] + P[i + 1][j] - P[i][j]
    for r0 in range(R):
        for r1 in range(r0, R):
            for c0 in range(C):
                for c1 in range(c0, C):
                    if P[r1 + 1][c1 + 1] - P[r0][c1 + 1] - P[r1 + 1][c0] + P[r0][c0] != (r1 - r0 + 1) * (c1 - c0 + 1):
                        continue
                    ok = True
                    for (i, j) in ones:
                        if r0 <= i <= r1 and c0 <= j <= c1:
                            continue
                        if c0 <= j <= c1 and i < r0:
                            run = all(m[k][j] for k in range(i, r0))
                        elif c0 <= j <= c1 and i > r1:
                            run = all(m[k][j] for k in range(r1 + 1, i + 1))
                        elif r0 <= i <= r1 and j < c0:
                            run = all(m[i][k] for k in range(j, c0))
                        elif r0 <= i <= r1 and j > c1:
                            run = all(m[i][k] for k in range(c1 + 1, j + 1))
                        else:
                            run = False
                        if not run:
                            ok = False
                            break
                    if ok:
                        return True
    return False


def cells_of(r):
    return {(i, j) for i in range(r.rows.low, r.rows.high + 1) for j in range(r.columns.low, r.columns.high + 1)}


def check_grid(m, sizes=None):
    R, C = len(m), len(m[0])
    # rows are "separated by a whitespace": any of them (chosen from the grid itself, so that a case always uses the same one)
    SEPS = [" ", "\n", "\t", "\r\n", "  ", " \n", "\n\n"]
    sep = SEPS[(sum(map(sum, m)) + 3 * R + C) % len(SEPS)]
    txt = sep.join("".join(str(v) for v in row) for row in m) + ("\n" if (R + C) % 3 == 0 else "")
    try:
        s = Strop(txt) if sizes is None else Strop(txt, sizes[0], sizes[1])
        got = s.is_strop
        insts = list(s.instances())
    except Exception as e:
        raise Violation("Strop(%r) raised %s: %s" % (txt, type(e).__name__, e), "raised")
    want = decomposable(m)
    if bool(got) != want:
        raise Violation("Strop(%r).is_strop = %r but a single-trunk decomposition %s" % (
            txt, got, "exists" if want else "does not exist"), "false-negative" if want else "false-positive")
    ones = {(i, j) for i in range(R) for j in range(C) if m[i][j]}
    for inst in insts:
        try:
            t = inst.trunk()
            rects = list(inst.rectangles())
            by_side = {side: list(inst.rectangles(side)) for side in "NSEWBT"}
        except Exception as e:
            raise Violation("Strop(%r): an offered decomposition raised %s: %s" % (txt, type(e).__name__, e), "instance-raised")
        if not rects or rects[0] != t:
            raise Violation("Strop(%r): rectangles() does not start with the trunk" % txt, "trunk-first")
        covered = []
        for r in rects:
            if r.empty() or r.rows.low > r.rows.high or r.columns.low > r.columns.high:
                raise Violation("Strop(%r): empty rectangle %s offered" % (txt, r), "instance-empty-rectangle")
            cs = cells_of(r)
            if not cs <= ones:
                raise Violation("Strop(%r): rectangle %s of an offered decomposition covers zero-cells" % (txt, r), "instance-covers-zero")
            covered.extend(cs)
        if len(covered) != len(set(covered)):
            raise Violation("Strop(%r): rectangles of an offered decomposition overlap: %s" % (txt, rects), "instance-overlap")
        if set(covered) != ones:
            raise Violation("Strop(%r): offered decomposition %s does not cover all one-cells" % (txt, rects), "instance-incomplete")
        for side in "NSEW":
            for b in by_side[side]:
                if side == "N":
                    ok = b.rows.high == t.rows.low - 1 and t.columns.low <= b.columns.low and b.columns.high <= t.columns.high
                elif side == "S":
                    ok = b.rows.low == t.rows.high + 1 and t.columns.low <= b.columns.low and b.columns.high <= t.columns.high
                elif side == "W":
                    ok = b.columns.high == t.columns.low - 1 and t.rows.low <= b.rows.low and b.rows.high <= t.rows.high
                else:
                    ok = b.columns.low == t.columns.high + 1 and t.rows.low <= b.rows.low and b.rows.high <= t.rows.high
                if not ok:
                    raise Violation("Strop(%r): %s branch %s does not abut the trunk %s within its extent" % (txt, side, b, t), "instance-branch")
        nb = len(by_side["B"])
        if nb != len(rects) - 1 or len(by_side["T"]) != 1:
            raise Violation("Strop(%r): rectangles('B'/'T') inconsistent with rectangles()" % txt, "instance-selectors")
        # every documented combination of selectors yields the union of what its letters yield, the trunk first
        for combo in ("TB", "BT", "TNSEW", "TBNSEW", "NS", "WE", "TN", "BN"):
            try:
                got = list(inst.rectangles(combo))
            except Exception as e:
                raise Violation("Strop(%r): rectangles(%r) raised %s: %s" % (txt, combo, type(e).__name__, e), "instance-raised")
            sides = "NSEW" if "B" in combo else [x for x in "NSEW" if x in combo]
            want = ([t] if "T" in combo else []) + [b for x in sides for b in by_side[x]]
            if got != want:
                raise Violation("Strop(%r): rectangles(%r) yields %s, its letters separately yield %s" % (txt, combo, got, want), "instance-selectors")
    rows_used = {i for i, _ in ones}
    cols_used = {j for _, j in ones}
    cls = ["decomposable" if want else "not-decomposable"]
    if len(insts) >= 2:
        cls.append("several-instances")
    return dict(nt=len(ones) >= 3 and len(rows_used) >= 2 and len(cols_used) >= 2, cls=cls)


def run_grid(c):
    return check_grid(parse(c[0], c[1], c[2]))


def enum_grids(tier, shard, nshards):
    limit = 16 if tier == "quick" else 20
    k = 0
    for R in range(1, limit + 1):
        for C in range(1, limit // R + 1):
            n = R * C
            for bits in range(1 << n):
                k += 1
                if k % nshards == shard:
                    yield [R, C, bits]


def run_random(c):
    m = [[int(ch) for ch in row] for row in c["rows"]]
    sizes = None
    if c.get("sizes"):
        sizes = ([float(v) for v in c["sizes"][0]], [float(v) for v in c["sizes"][1]])
    r = check_grid(m, sizes)
    if sizes is not None:
        # the size lists are inputs: they must not be altered and unit sizes must give the same verdict
        if sizes[0] != [float(v) for v in c["sizes"][0]] or sizes[1] != [float(v) for v in c["sizes"][1]]:
            raise Violation("Strop altered the height/width lists passed to it", "sizes-mutated")
        r["cls"].append("explicit-sizes")
    r["cls"].append(c["kind"])
    return r


@st.composite
def random_grid_s(draw):
    R, C = draw(_i(3, 8)), draw(_i(3, 8))
    kind = draw(st.sampled_from(["stog", "stog", "near-stog", "ring", "staircase", "two-components", "noise"]))
    m = [[0] * C for _ in range(R)]
    if kind in ("stog", "near-stog", "two-components"):
        r0 = draw(_i(0, R - 1))
        r1 = draw(_i(r0, R - 1))
        c0 = draw(_i(0, C - 1))
        c1 = draw(_i(c0, C - 1))
        for i in range(r0, r1 + 1):
            for j in range(c0, c1 + 1):
                m[i][j] = 1
        for j in range(c0, c1 + 1):
            for i in range(r0 - 1, r0 - 1 - draw(_i(0, r0)), -1):
                m[i][j] = 1
            for i in range(r1 + 1, r1 + 1 + draw(_i(0, R - 1 - r1))):
                m[i][j] = 1
        for i in range(r0, r1 + 1):
            for j in range(c0 - 1, c0 - 1 - draw(_i(0, c0)), -1):
                m[i][j] = 1
            for j in range(c1 + 1, c1 + 1 + draw(_i(0, C - 1 - c1))):
                m[i][j] = 1
        if kind == "near-stog":
            for _ in range(draw(_i(1, 2))):
                i, j = draw(_i(0, R - 1)), draw(_i(0, C - 1))
                m[i][j] ^= 1
        if kind == "two-components":
            i, j = draw(_i(0, R - 1)), draw(_i(0, C - 1))
            m[i][j] = 1
            m[R - 1 - i][C - 1 - j] = 1
    elif kind == "ring":
        r0, c0 = draw(_i(0, R - 3)), draw(_i(0, C - 3))
        r1, c1 = draw(_i(r0 + 2, R - 1)), draw(_i(c0 + 2, C - 1))
        for i in range(r0, r1 + 1):
            for j in range(c0, c1 + 1):
                if i in (r0, r1) or j in (c0, c1):
                    m[i][j] = 1
    elif kind == "staircase":
        for i in range(R):
            w = draw(_i(1, 2))
            for j in range(min(C - 1, i), min(C, i + w + 1)):
                m[i][j] = 1
    else:
        for i in range(R):
            for j in range(C):
                m[i][j] = int(draw(_i(0, 2)) > 0)
    sizes = None
    if draw(_i(0, 2)) == 0:
        sizes = [[draw(st.sampled_from([1, 0.5, 2.5, 3])) for _ in range(R)], [draw(st.sampled_from([1, 0.1, 4])) for _ in range(C)]]
    return dict(rows=["".join(str(v) for v in row) for row in m], kind=kind, sizes=sizes)


# ---- polygons ----------------------------------------------------------------------------------------

def trace(rects):
    """boundary of the union of integer rectangles (assumed simply connected, no pinch points) as a CCW vertex list,
    with every lattice vertex of the Hanan grid on the boundary kept (redundant collinear ones included)"""
    xs = sorted({v for r in rects for v in (r[0], r[2])})
    ys = sorted({v for r in rects for v in (r[1], r[3])})
    filled = set()
    for i in range(len(xs) - 1):
        for j in range(len(ys) - 1):
            cx, cy = (xs[i] + xs[i + 1]) / 2, (ys[j] + ys[j + 1]) / 2
            if any(r[0] < cx < r[2] and r[1] < cy < r[3] for r in rects):
                filled.add((i, j))
    nxt = {}
    for (i, j) in filled:
        x0, x1, y0, y1 = xs[i], xs[i + 1], ys[j], ys[j + 1]
        if (i, j - 1) not in filled:
            nxt[(x0, y0)] = (x1, y0)
        if (i + 1, j) not in filled:
            nxt[(x1, y0)] = (x1, y1)
        if (i, j + 1) not in filled:
            nxt[(x1, y1)] = (x0, y1)
        if (i - 1, j) not in filled:
            nxt[(x0, y1)] = (x0, y0)
    start = min(nxt)
    poly = [start]
    p = nxt[start]
    while p != start:
        poly.append(p)
        p = nxt[p]
    if len(poly) != len(nxt):
        raise RuntimeError("boundary is not a single cycle")
    return poly


def drop_collinear(poly):
    out = []
    n = len(poly)
    for k in range(n):
        a, b, c = poly[k - 1], poly[k], poly[(k + 1) % n]
        if (a[0] == b[0] == c[0]) or (a[1] == b[1] == c[1]):
            continue
        out.append(b)
    return out


def shoelace(poly):
    s = Fr(0)
    n = len(poly)
    for k in range(n):
        x0, y0 = poly[k]
        x1, y1 = poly[(k + 1) % n]
        s += x0 * y1 - x1 * y0
    return abs(s) / 2


def run_polygon(c):
    u = Fr(c["unit"])
    # non-uniform lattice: integer coordinate k is mapped to the k-th partial sum of the gaps
    gx, gy = c["gaps"]
    X_ = [Fr(0)]
    for g in gx:
        X_.append(X_[-1] + g * u)
    Y_ = [Fr(0)]
    for g in gy:
        Y_.append(Y_[-1] + g * u)
    ox, oy = Fr(c.get("off", [0, 0])[0]) * u, Fr(c.get("off", [0, 0])[1]) * u
    rects = [(X_[r[0]] + ox, Y_[r[1]] + oy, X_[r[2]] + ox, Y_[r[3]] + oy) for r in c["rects"]]
    poly = trace(rects)
    if not c["collinear"]:
        poly = drop_collinear(poly)
    if c["reverse"]:
        poly = poly[::-1]
    k = c["start"] % len(poly)
    poly = poly[k:] + poly[:k]
    if c["numpy"]:
        verts = [np.array([float(x), float(y)]) for x, y in poly]
    else:
        verts = [Point(float(x), float(y)) for x, y in poly]
    try:
        out = strop_decomposition(verts)
    except Exception as e:
        raise Violation("strop_decomposition raised %s: %s on the orthogon %s (vertices %s)" % (
            type(e).__name__, str(e)[:200], c["rects"], [(float(x), float(y)) for x, y in poly]), "polygon-raised")
    area = shoelace(poly)
    got = [X.rect_cs(*r) for r in out]
    tol = area / 10 ** 9
    if abs(sum((X.area(r) for r in got), Fr(0)) - area) > tol:
        raise Violation("strop_decomposition: rectangles %s have total area %s, the polygon has %s" % (
            out, float(sum(X.area(r) for r in got)), float(area)), "polygon-area")
    ok, pr = X.pairwise_disjoint(got, tol)
    if not ok:
        raise Violation("strop_decomposition: rectangles overlap: %s" % (pr,), "polygon-overlap")
    frects = [tuple(Fr(float(v)) for v in r) for r in rects]
    if not X.same_union([tuple(Fr(round(float(v) / float(u) * 64)) for v in r) for r in got],
                        [tuple(Fr(round(float(v) / float(u) * 64)) for v in r) for r in frects]):
        raise Violation("strop_decomposition: the union of %s is not the polygon built from %s" % (out, [tuple(map(float, r)) for r in rects]),
                        "polygon-union")
    # loaded as a module it is a single-trunk orthogon with the trunk first (the netlist format wants non-negative
    # centres: the rectangles are translated back into the positive quadrant for this step)
    tx, ty = float(max(Fr(0), -ox)), float(max(Fr(0), -oy))
    doc = {"Modules": {"B": {"area": float(area), "rectangles": [[r[0] + tx, r[1] + ty, r[2], r[3]] for r in out]}}, "Nets": []}
    try:
        nl = Netlist(doc)
    except Exception as e:
        raise Violation("the decomposition %s is rejected as a module: %s: %s" % (out, type(e).__name__, e), "polygon-module-rejected")
    m = nl.get_module("B")
    if not m.has_stog or m.rectangles[0].location != Rectangle.StogLocation.TRUNK:
        raise Violation("the decomposition %s is not recognised as a single-trunk orthogon" % (out,), "polygon-not-stog")
    for r in m.rectangles[1:]:
        if r.location in (Rectangle.StogLocation.NO_POLYGON, Rectangle.StogLocation.TRUNK):
            raise Violation("rectangle %s of the decomposition carries %s" % (r, r.location), "polygon-branch-role")
    cls = ["numpy" if c["numpy"] else "points", "cw" if c["reverse"] else "ccw"]
    if c["numpy"]:
        # the same vertex buffer is decomposed, moved IN PLACE (the block is translated) and decomposed again
        dx, dy = 16 * float(u), 8 * float(u)
        for container in ("array", "list-of-arrays"):
            buf = np.array([[float(x), float(y)] for x, y in poly]) if container == "array" else [np.array([float(x), float(y)]) for x, y in poly]
            try:
                first = strop_decomposition(buf)
                if container == "array":
                    buf += np.array([dx, dy])
                else:
                    for v in buf:
                        v += np.array([dx, dy])
                second = strop_decomposition(buf)
            except Exception as e:
                raise Violation("strop_decomposition raised %s: %s when the vertex %s was decomposed, translated in place and decomposed again "
                                "(orthogon %s)" % (type(e).__name__, str(e)[:200], container, c["rects"]), "polygon-raised-after-move")
            want = [[r[0] + dx, r[1] + dy, r[2], r[3]] for r in first]
            got2 = [list(map(float, r)) for r in second]
            scale = max(abs(v) for r in want for v in r)

            def same(x, y):
                return all(abs(a - b) <= 1e-9 * scale for a, b in zip(x, y))
            rest = list(got2)
            for w_ in want:
                k = next((i for i, g in enumerate(rest) if same(g, w_)), None)
                if k is None:
                    break
                rest.pop(k)
            if len(want) != len(got2) or rest:
                raise Violation("strop_decomposition of a vertex %s translated in place by (%r, %r) gives %s, the decomposition before the move "
                                "was %s" % (container, dx, dy, second, first), "polygon-stale-after-move")
        cls.append("vertex-buffer-moved-in-place")
    if c["collinear"]:
        cls.append("redundant-vertices")
    if len(out) >= 3:
        cls.append(">=3-rectangles")
    if any(x < 0 for x, _ in poly):
        cls.append("negative-coordinates")
    if any(x == -1 for x, _ in poly):
        cls.append("vertex-at-x=-1")
    return dict(nt=len(out) >= 2, cls=cls)


@st.composite
def polygon_s(draw):
    rects, _ = draw(stog_rects(0, 0, 2, 5, 3, 6))
    mx = max(max(r[2], r[3]) for r in rects)
    gaps = [[draw(st.sampled_from([1, 1, 2, 3, 7])) for _ in range(mx)], [draw(st.sampled_from([1, 1, 2, 5])) for _ in range(mx)]]
    off = [draw(st.sampled_from([0, 0, -1, -2, -3, -5, -8, -13, 4])), draw(st.sampled_from([0, 0, -1, -4, 7]))]
    return dict(unit=draw(st.sampled_from(["1", "1", "0.5", "0.125", "0.1", "0.3", "2.5", "0.01"])), rects=rects, gaps=gaps, off=off,
                collinear=draw(st.booleans()), reverse=draw(st.booleans()), start=draw(_i(0, 40)), numpy=draw(st.booleans()))


def subchecks():
    return [
        Sub("grids", run_grid, enum=enum_grids, exhaustive=True,
            desc="all 0/1 grids with at most 16 (quick) / 20 (thorough) cells, every rows x cols shape"),
        Sub("random", run_random, strategy=random_grid_s(), n_quick=6000, n_thorough=200000, fuzz_thorough=4000,
            required=("decomposable", "not-decomposable", "ring", "staircase", "two-components", "near-stog", "explicit-sizes")),
        Sub("polygons", run_polygon, strategy=polygon_s(), n_quick=4000, n_thorough=100000, fuzz_thorough=2000,
            required=("numpy", "points", "cw", "ccw", "redundant-vertices", ">=3-rectangles", "negative-coordinates", "vertex-at-x=-1", "vertex-buffer-moved-in-place")),
    ]
