"""C05  Loaded netlist matches its definition; ill-formed designs are rejected."""
import copy
from fractions import Fraction as Fr

import mpmath
from hypothesis import strategies as st

from frame.netlist.netlist import Netlist
from gen import lattice as L
from gen import netlist as G
from vfw import exact as X
from vfw.core import Sub, Violation

PROP = "C05"
RULE = ("wellformed: netlist model from the shared generator (all module kinds, per-region areas, centres, rectangles, weighted "
        "hyperedges with repeated members) loaded from tree or text; every derived quantity is recomputed from the model in "
        "Fractions / mpmath: areas, area by region, centres (area-weighted centroid), kinds, aspect ratio, rectangles per module "
        "and overall, fixed rectangles, nets and weights, wire length (when every net member has a centre). "
        "non-trivial = a module with >= 2 rectangles and a hyperedge of arity >= 3. "
        "illformed: the same documents with exactly one injected defect of a generated class at a generated position "
        "(unknown module in a net, weight 0/negative, area 0/negative, region area 0, soft without area, hard/fixed with area, "
        "hard without rectangles, hard with rectangles overlapping by >= one cell, unknown attribute, invalid name, one-pin net "
        "with and without weight, rectangle size 0/negative); Netlist(doc) must raise. non-trivial = every case.")
ASSUMPTIONS = [
    "relative tolerance 1e-9 for areas, centres and wire length (reference in Fractions / 50-digit mpmath)",
    "any exception raised by Netlist(...) on an ill-formed document counts as rejection",
    "rectangles of a module are compared as a multiset (recognition may move the trunk to the front)",
]
_i = st.integers
mpmath.mp.dps = 50


def close(a, b, scale):
    return abs(Fr(a) - Fr(b)) <= Fr(1, 10 ** 9) * max(abs(Fr(scale)), Fr(1, 10 ** 30))


def run_wellformed(c):
    model = c["model"]
    dup = None
    if c.get("dup"):
        # a soft module may list overlapping rectangles, also the same rectangle more than once: every copy counts
        cands = [k for k, m in enumerate(model["modules"]) if m["kind"] == "soft" and m["rects"]]
        if cands:
            model = copy.deepcopy(model)
            m = model["modules"][cands[c["dup"][0] % len(cands)]]
            r = list(m["rects"][c["dup"][1] % len(m["rects"])])
            m["rects"].insert(c["dup"][2] % (len(m["rects"]) + 1), r)
            m["flat"] = False
            dup = m["name"]
    unit = model["unit"]
    doc = G.to_text(model) if c["form"] in ("text", "file") else G.to_tree(model)
    if c["form"] == "file":
        from gen import files
        doc = files.write(len(doc) + len(model["modules"]), doc)  # (the path is what is handed to Netlist)
    doc_before = copy.deepcopy(doc)
    try:
        nl = Netlist(doc)
        if c["form"] == "tree" and c.get("twice"):
            # the same parsed tree is loaded a second time (a tool may keep the tree and build several netlists from it):
            # everything below is checked on the SECOND netlist
            if doc != doc_before:
                raise Violation("loading a netlist altered the caller's document: %s -> %s" % (doc_before["Nets"], doc["Nets"]), "document-altered")
            nl = Netlist(doc)
    except Violation:
        raise
    except Exception as e:
        raise Violation("well-formed netlist rejected: %s: %s\n%s" % (type(e).__name__, e, G.to_tree(model)), "wellformed-rejected")
    if doc != doc_before:
        raise Violation("loading a netlist altered the caller's document: %s -> %s" % (doc_before, doc), "document-altered")
    mods = model["modules"]
    if nl.num_modules != len(mods) or [m.name for m in nl.modules] != [m["name"] for m in mods]:
        raise Violation("modules loaded as %s, defined as %s" % ([m.name for m in nl.modules], [m["name"] for m in mods]), "modules")
    scale = Fr(unit) * 100
    all_rects, fixed_rects, owner = [], [], []
    for src, m in zip(mods, nl.modules):
        nm = src["name"]
        if nl.get_module(nm) is not m:
            raise Violation("get_module(%s) returns another object" % nm, "get_module")
        kind = src["kind"]
        flags = (m.is_soft, m.is_hard, m.is_fixed, m.is_terminal, m.flip)
        exp = (kind == "soft", kind != "soft", kind == "fixed" or (kind == "terminal" and src["tfixed"]), kind == "terminal",
               bool(src["flip"]))
        if flags != exp:
            raise Violation("module %s (%s): flags soft/hard/fixed/terminal/flip are %s, expected %s" % (nm, kind, flags, exp), "kind")
        ea = G.exp_area(src, unit)
        if not close(m.area(), ea, ea or 1):
            raise Violation("module %s: area() = %r, definition gives %s" % (nm, m.area(), float(ea)), "area")
        er = G.exp_area_regions(src, unit)
        if kind == "terminal":  # the statement only says: zero area
            if any(v != 0 for v in m.area_regions.values()):
                raise Violation("terminal %s has area by region %s" % (nm, m.area_regions), "area-regions")
        elif set(m.area_regions) != set(er) or any(not close(m.area_regions[k], er[k], er[k]) for k in er):
            raise Violation("module %s: area by region %s, definition gives %s" % (nm, m.area_regions, {k: float(v) for k, v in er.items()}),
                            "area-regions")
        for reg in er:
            if not close(m.area(reg), er[reg], er[reg]):
                raise Violation("module %s: area(%s) = %r" % (nm, reg, m.area(reg)), "area-regions")
        if m.area("no_such_region") != 0:
            raise Violation("module %s: area of an absent region is %r" % (nm, m.area("no_such_region")), "area-regions")
        ec = G.exp_center(src, unit)
        if (m.center is None) != (ec is None):
            raise Violation("module %s: centre is %s, definition gives %s" % (nm, m.center, ec), "center")
        if ec is not None and not (close(m.center.x, ec[0], scale) and close(m.center.y, ec[1], scale)):
            raise Violation("module %s: centre %s, definition gives (%s, %s)" % (nm, m.center, float(ec[0]), float(ec[1])), "center")
        ar = G.exp_ar(src)
        got_ar = None if m.aspect_ratio is None else (m.aspect_ratio.min_wh, m.aspect_ratio.max_wh)
        if got_ar != ar:
            raise Violation("module %s: aspect ratio %s, definition gives %s" % (nm, got_ar, ar), "aspect-ratio")
        exp_r = sorted((X.rect_cs(*[X.num(v) for v in L.csr(r[:4], unit)]),
                        r[4] or "_", kind == "fixed", kind in ("hard", "fixed")) for r in src["rects"])
        got_r = sorted((X.of_frame(r), r.region, r.fixed, r.hard) for r in m.rectangles)
        if got_r != exp_r or m.num_rectangles != len(src["rects"]):
            raise Violation("module %s: rectangles %s, definition gives %s" % (nm, got_r, exp_r), "rectangles")
        if src["rects"] and not close(m.area_rectangles, sum(X.area(e[0]) for e in exp_r), scale * scale):
            raise Violation("module %s: area_rectangles %r" % (nm, m.area_rectangles), "area-rectangles")
        all_rects.extend((id(r), len(owner)) for r in m.rectangles)
        if kind == "fixed":
            fixed_rects.extend((id(r), len(owner)) for r in m.rectangles)
        owner.append(nm)
    # the lists of all / fixed rectangles: the modules' rectangles, module by module (the order inside a module is free)
    own = dict(all_rects)
    for what, got, exp in (("rectangles", nl.rectangles, all_rects), ("fixed_rectangles()", nl.fixed_rectangles(), fixed_rects)):
        ids = [id(r) for r in got]
        if sorted(ids) != sorted(i for i, _ in exp) or [own[i] for i in ids] != sorted(own[i] for i in ids):
            raise Violation("netlist.%s holds %d rectangles %s; the %s modules define %d" % (
                what, len(ids), [str(r) for r in got], "fixed" if "fixed" in what else "", len(exp)), "list-" + what)
    if nl.num_rectangles != len(all_rects):
        raise Violation("num_rectangles = %d, defined %d" % (nl.num_rectangles, len(all_rects)), "list-rectangles")
    # nets
    if nl.num_edges != len(model["nets"]):
        raise Violation("%d nets loaded, %d defined" % (nl.num_edges, len(model["nets"])), "nets")
    for src, e in zip(model["nets"], nl.edges):
        if [b.name for b in e.modules] != src["m"] or any(b is not nl.get_module(b.name) for b in e.modules):
            raise Violation("net %s loaded with members %s" % (src["m"], [b.name for b in e.modules]), "net-members")
        if e.weight != G.exp_weight(src) or not isinstance(e.weight, float):
            raise Violation("net %s: weight %r, defined %r" % (src["m"], e.weight, src["w"]), "net-weight")
    # wire length
    by_name = {m["name"]: m for m in mods}
    centres = {m["name"]: G.exp_center(m, unit) for m in mods}
    cls = [c["form"]] + (["tree-loaded-twice"] if c["form"] == "tree" and c.get("twice") else [])
    if model["nets"] and all(centres[n] is not None for e in model["nets"] for n in e["m"]):
        total = mpmath.mpf(0)
        for e in model["nets"]:
            pts = [centres[n] for n in e["m"]]
            mx = sum(p[0] for p in pts) / len(pts)
            my = sum(p[1] for p in pts) / len(pts)
            s = mpmath.mpf(0)
            for p in pts:
                d2 = (p[0] - mx) ** 2 + (p[1] - my) ** 2
                s += mpmath.sqrt(mpmath.mpf(d2.numerator) / mpmath.mpf(d2.denominator))
            total += s * mpmath.mpf(G.exp_weight(e))
        try:
            wl = nl.wire_length
        except Exception as ex:
            raise Violation("wire_length raised %s: %s although every net member has a centre" % (type(ex).__name__, ex), "wire-length-raised")
        # (rounding: every distance is computed from float centres, so each net member contributes up to a few ulps of its coordinates
        # times the weight, also when all members coincide and the defined length is 0)
        coord = max([abs(v) for p in centres.values() if p is not None for v in p] + [Fr(0)])
        noise = mpmath.mpf(1e-13) * mpmath.mpf(float(coord)) * sum(mpmath.mpf(G.exp_weight(e)) * len(e["m"]) for e in model["nets"])
        if abs(mpmath.mpf(wl) - total) > mpmath.mpf(1e-9) * (abs(total) + mpmath.mpf(float(scale)) * mpmath.mpf(1e-3)) + noise:
            raise Violation("wire_length = %r, definition gives %s for nets %s" % (wl, mpmath.nstr(total, 15), model["nets"]), "wire-length")
        cls.append("wire-length")
        if c.get("relocate") and not any(m["kind"] == "terminal" for m in mods):
            # what a placement stage does next: default squares for the modules without rectangles, new centres for them through the
            # setter, and the wire length is read again - it is the one of the centres the modules have NOW, and reading it moves nothing
            from frame.geometry.geometry import Point
            try:
                nl.create_squares()
            except Exception:
                nl = None
            if nl is not None:
                now = dict(centres)
                for src, m in zip(mods, nl.modules):
                    if src["kind"] == "soft" and not src["rects"]:
                        nx, ny = m.center.x + 3 * float(Fr(unit)), m.center.y + float(Fr(unit))
                        m.center = Point(nx, ny)
                        now[src["name"]] = (Fr(nx), Fr(ny))
                if now != centres:
                    total2 = mpmath.mpf(0)
                    for e in model["nets"]:
                        pts = [now[n] for n in e["m"]]
                        mx = sum(p[0] for p in pts) / len(pts)
                        my = sum(p[1] for p in pts) / len(pts)
                        s2 = mpmath.mpf(0)
                        for p in pts:
                            d2 = (p[0] - mx) ** 2 + (p[1] - my) ** 2
                            s2 += mpmath.sqrt(mpmath.mpf(d2.numerator) / mpmath.mpf(d2.denominator))
                        total2 += s2 * mpmath.mpf(G.exp_weight(e))
                    wl2 = nl.wire_length
                    coord2 = max([abs(v) for p in now.values() if p is not None for v in p] + [Fr(0)])  # (the rounding term, for the new centres)
                    noise2 = mpmath.mpf(1e-13) * mpmath.mpf(float(coord2)) * sum(mpmath.mpf(G.exp_weight(e)) * len(e["m"]) for e in model["nets"])
                    if abs(mpmath.mpf(wl2) - total2) > mpmath.mpf(1e-9) * (abs(total2) + mpmath.mpf(float(scale)) * mpmath.mpf(1e-3)) + noise + noise2:
                        raise Violation("after create_squares() and new centres for the modules without rectangles, wire_length = %r; the centres and "
                                        "nets give %s (it was %s before the centres were changed)" % (wl2, mpmath.nstr(total2, 15), mpmath.nstr(total, 15)),
                                        "wire-length-after-relocation")
                    for src, m in zip(mods, nl.modules):
                        if src["kind"] == "soft" and not src["rects"] and (Fr(m.center.x), Fr(m.center.y)) != now[src["name"]]:
                            raise Violation("reading wire_length moved the centre of %s from %s to %s" % (
                                src["name"], tuple(float(v) for v in now[src["name"]]), m.center), "wire-length-moves-centres")
                    cls.append("wire-length-after-squares-and-new-centres")
    multi = any(len(m["rects"]) >= 2 for m in mods)
    hyper = any(len(e["m"]) >= 3 for e in model["nets"])
    if any(m["kind"] == "soft" and not m["area_scalar"] for m in mods):
        cls.append("region-areas")
    if any(m["flat"] for m in mods):
        cls.append("flat-rectangle")
    if any(m["kind"] == "soft" and m["rects"] and m["center"] is not None for m in mods):
        cls.append("centre-overridden-by-rectangles")
    if dup:
        cls.append("soft-module-lists-a-rectangle-twice")
    return dict(nt=multi and hyper, cls=cls)


# ---- ill-formed documents -------------------------------------------------------------------------------

DEFECTS = ["unknown-module-in-net", "weight-zero", "weight-negative", "area-zero", "area-negative", "region-area-zero",
           "soft-without-area", "hard-with-area", "fixed-with-area", "hard-without-rectangles", "hard-overlapping-rectangles",
           "unknown-attribute", "unknown-top-key", "invalid-name", "one-pin-net", "one-pin-net-weighted", "rect-size-zero",
           "rect-size-negative"]


def inject(doc, defect, pick):
    """mutates the parsed document in place; `pick` is a list of generated integers used to choose positions"""
    mods = doc["Modules"]
    names = list(mods)
    p = iter(pick + [0] * 8)

    def choose(seq):
        return seq[next(p) % len(seq)]

    def some(pred, make):
        cands = [n for n in names if pred(mods[n])]
        if cands:
            return choose(cands)
        nm, body = make()
        mods[nm] = body
        return nm

    soft = lambda d: "area" in d
    hardonly = lambda d: d.get("hard") is True
    hardfixed = lambda d: d.get("hard") is True or (d.get("fixed") is True and "terminal" not in d)
    if defect == "unknown-module-in-net":
        if doc["Nets"] and next(p) % 2:
            e = choose(doc["Nets"])
            e[next(p) % (len(e) - (1 if not isinstance(e[-1], str) else 0))] = "Zz_unknown"
        else:
            doc["Nets"].insert(next(p) % (len(doc["Nets"]) + 1), [choose(names), "Zz_unknown"])
    elif defect in ("weight-zero", "weight-negative"):
        w = choose([0, 0.0]) if defect == "weight-zero" else choose([-1, -0.5, -3])
        if doc["Nets"] and next(p) % 2:
            e = choose(doc["Nets"])
            if isinstance(e[-1], str):
                e.append(w)
            else:
                e[-1] = w
        else:
            doc["Nets"].append([choose(names), choose(names), w])
    elif defect in ("area-zero", "area-negative", "region-area-zero"):
        nm = some(soft, lambda: ("Zsoft", {"area": 1}))
        bad = choose([0, 0.0]) if defect != "area-negative" else choose([-1, -2.5])
        if defect == "region-area-zero":
            a = mods[nm]["area"]
            a = dict(a) if isinstance(a, dict) else {"_": a}
            a[choose(list(a) + ["DSP"])] = bad
            mods[nm]["area"] = a
        elif isinstance(mods[nm]["area"], dict):
            k = choose(list(mods[nm]["area"]))
            mods[nm]["area"][k] = bad
        else:
            mods[nm]["area"] = bad
    elif defect == "soft-without-area":
        nm = some(soft, lambda: ("Zsoft", {"area": 1, "center": [1, 1]}))
        del mods[nm]["area"]
    elif defect in ("hard-with-area", "fixed-with-area"):
        want = "hard" if defect == "hard-with-area" else "fixed"
        nm = some(lambda d: d.get(want) is True and "terminal" not in d, lambda: ("Z" + want, {want: True, "rectangles": [[1, 1, 2, 2]]}))
        mods[nm]["area"] = choose([4, 2.5, {"_": 3}])
    elif defect == "hard-without-rectangles":
        nm = some(hardfixed, lambda: ("Zhard", {"hard": True, "rectangles": [[1, 1, 2, 2]]}))
        del mods[nm]["rectangles"]
    elif defect == "hard-overlapping-rectangles":
        nm = some(hardfixed, lambda: ("Zhard", {"hard": True, "rectangles": [[1, 1, 2, 2]]}))
        rl = mods[nm]["rectangles"]
        if rl and not isinstance(rl[0], list):
            rl = [rl]
        r = choose(rl)
        variant = next(p) % 4
        if variant == 3:
            # the same rectangle once more (written with other number spellings half of the time)
            extra = [[float(v) if isinstance(v, int) and next(p) % 2 else v for v in r]]
        elif variant == 0:
            # a rectangle sharing a whole quarter (>= one lattice cell) with r
            extra = [[r[0] + r[2] / 4, r[1] + r[3] / 4, r[2], r[3]]]
        else:
            # a long strip that shares r's upper right quarter and runs far to the right (or upwards), plus a small rectangle that
            # lies between the two centres without touching r: three rectangles of which only the first and the last overlap
            L = 6 * max(r[2], r[3])
            if variant == 1:
                extra = [[r[0] + r[2] / 4 + L / 2, r[1] + r[3] / 4 + r[3] / 8, L, r[3] / 4],
                         [r[0] + r[2] / 2 + L / 4, r[1] - r[3], r[2] / 2, r[3] / 2]]
            else:
                extra = [[r[0] + r[2] / 4 + r[2] / 8, r[1] + r[3] / 4 + L / 2, r[2] / 4, L],
                         [r[0] - r[2], r[1] + r[3] / 2 + L / 4, r[2] / 2, r[3] / 2]]
            if next(p) % 2:
                extra = extra[::-1]
        rl = list(rl) + extra
        if next(p) % 2:
            rl = rl[::-1]
        mods[nm]["rectangles"] = rl
        mods[nm].pop("flip", None)
    elif defect == "unknown-attribute":
        nm = choose(names)
        mods[nm][choose(["colour", "Area", "rectangle", "centre", "weight", "name"])] = choose([3, True, [1, 2], "x"])
    elif defect == "unknown-top-key":
        doc[choose(["Modules_", "nets", "Die", "modules"])] = choose([[], {}, 3])
    elif defect == "invalid-name":
        nm = choose(names)
        # fixed ill-formed names, and ill-formed names derived from the valid one (one character too many at either end)
        bad = choose(["1a", "a-b", "a b", "", "a.b", 5, "é", "a+", nm + "\n", "\n" + nm, nm + " ", " " + nm, nm + "\t", nm + "\r",
                      nm + "-", "9" + nm, nm + "\u00e9", nm + "\n\n", nm + "."])
        soft = [k for k, v in mods.items() if isinstance(v, dict) and "area" in v]
        site = next(p) % 4
        if site == 3 and next(p) % 2:
            bad = "#"  # (the blockage mark of dies: not a name)
        if site == 3 and isinstance(bad, str):
            # ... or the name of the region of a rectangle of a soft module (the optional fifth field)
            k = some(lambda d: "area" in d and d.get("rectangles"), lambda: ("Zsoft", {"area": 4, "rectangles": [[1, 1, 2, 2]]}))
            rl = mods[k]["rectangles"]
            if rl and not isinstance(rl[0], list):
                rl = mods[k]["rectangles"] = [rl]
            r = choose(rl)
            r[4:] = [bad if bad not in ("", "\n" + nm) else "dsp\n"]
            return
        if soft and site == 0 and isinstance(bad, str):
            # ... or the name of a region (key of a per-region area)
            k = choose(soft)
            a = mods[k]["area"]
            region = bad if bad not in ("", "\n" + nm) else "dsp\n"
            mods[k]["area"] = {region: a} if not isinstance(a, dict) else dict(list(a.items()) + [(region, 1)])
            return
        new = {}
        for k, v in mods.items():
            new[bad if k == nm else k] = v
        doc["Modules"] = new
        for e in doc["Nets"]:
            for i, x in enumerate(e):
                if x == nm and isinstance(bad, str):
                    e[i] = bad
    elif defect == "one-pin-net":
        doc["Nets"].insert(next(p) % (len(doc["Nets"]) + 1), [choose(names)])
    elif defect == "one-pin-net-weighted":
        doc["Nets"].insert(next(p) % (len(doc["Nets"]) + 1), [choose(names), choose([3, 1, 2.5, 1.0])])
    elif defect in ("rect-size-zero", "rect-size-negative"):
        nm = some(lambda d: "rectangles" in d, lambda: ("Zsoft", {"area": 4, "rectangles": [[1, 1, 2, 2]]}))
        rl = mods[nm]["rectangles"]
        flat = rl and not isinstance(rl[0], list)
        r = rl if flat else choose(rl)
        r[2 + next(p) % 2] = choose([0, 0.0]) if defect == "rect-size-zero" else choose([-1, -0.5])
    else:
        raise ValueError(defect)
    return doc


def run_illformed(c):
    doc = copy.deepcopy(G.to_tree(c["model"]))
    inject(doc, c["defect"], list(c["pick"]))
    try:
        nl = Netlist(doc)
    except Exception as e:
        return dict(nt=True, cls=[c["defect"], "rejected-" + type(e).__name__])
    raise Violation("ill-formed netlist (%s) was loaded: %s -> modules %s, nets %s" % (
        c["defect"], doc, [str(m) for m in nl.modules], nl.edges), "illformed-accepted:" + c["defect"])


@st.composite
def well_s(draw):
    return dict(model=draw(G.netlist_model(max_modules=6)), form=draw(st.sampled_from(["tree", "tree", "text", "file"])), twice=draw(st.booleans()),
                dup=[draw(_i(0, 5)), draw(_i(0, 5)), draw(_i(0, 5))] if draw(_i(0, 3)) == 0 else None, relocate=draw(st.booleans()))


@st.composite
def ill_s(draw):
    return dict(model=draw(G.netlist_model(max_modules=5, soft_rect_overlap=False)), defect=draw(st.sampled_from(DEFECTS)),
                pick=[draw(_i(0, 11)) for _ in range(5)])


def subchecks():
    return [
        Sub("wellformed", run_wellformed, strategy=well_s(), n_quick=5000, n_thorough=120000, fuzz_thorough=2500,
            required=("wire-length", "region-areas", "flat-rectangle", "centre-overridden-by-rectangles", "text", "tree", "file", "tree-loaded-twice", "soft-module-lists-a-rectangle-twice",
                      "wire-length-after-squares-and-new-centres")),
        Sub("illformed", run_illformed, strategy=ill_s(), n_quick=5000, n_thorough=120000, fuzz_thorough=2500, required=tuple(DEFECTS)),
    ]
