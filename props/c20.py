"""C20  Results do not depend on what the process did before (fresh forked interpreter vs after a random history)."""
import contextlib
import copy
import io
import json
import os
import signal
import sys
from fractions import Fraction as Fr

from hypothesis import strategies as st

from gen import alloc as A
from gen import design as D
from gen import floorplan as FP
from gen import netlist as G
from vfw.core import Sub, Violation

PROP = "C20"
RULE = ("a case is (history, probe).  probe = one operation on one design: load a netlist (verdict + digest), build a die "
        "(regions), refine an allocation (threshold / uniform / grid), recognise an orthogon through module loading, encode a "
        "posting script (projected model set), build a legaliser model (group, name, met per equation), decompose a grid with "
        "Strop.  history = 0-6 such operations on unrelated designs whose unit is 1, 10, 100 or 1000 times the base unit (so every "
        "dimension is within a factor 1000 of the probe's), including rejected designs, module-less / terminal-only netlists, and "
        "operations whose results are mutated afterwards.  Child A (fresh fork of a parent that has imported FRAME but never "
        "executed it) runs the probe; child B runs the history, then the probe; their canonical digests must be equal.  "
        "non-trivial = history of >= 2 operations of which >= 1 is of the probe's family; distinct = distinct case.")
ASSUMPTIONS = [
    "designs are lattice designs with unit >= 0.1: every accept/reject verdict and every abutment is clear of any tolerance that a 1000x change of the process-wide epsilon could move",
    "digests are canonical: floats rounded to 12 significant digits; SAT encodings are digested as projected model set + clause count + a structural hash of the CNF in which decision-diagram node ids are replaced by hashes of the sub-diagrams they denote (node numbers legitimately depend on history, the emitted clauses do not); exception type for failed operations",
    "the parent process asserts before every fork that FRAME's process-wide state is pristine (epsilon undefined, ROBDD store empty)",
]
_i = st.integers
FAMILIES = ["netlist", "die", "alloc", "stog", "sat", "legal", "strop"]


def sig12(v):
    if isinstance(v, bool) or v is None or isinstance(v, (int, str)):
        return v
    if isinstance(v, float):
        if v != v or v in (float("inf"), float("-inf")):
            return str(v)
        return float("%.12g" % v)
    if isinstance(v, (list, tuple)):
        return [sig12(x) for x in v]
    if isinstance(v, dict):
        return {str(k): sig12(x) for k, x in sorted(v.items(), key=lambda kv: str(kv[0]))}
    return str(v)


# ---- operations (executed only in forked children) -------------------------------------------------------------

def do_op(op, mutate=False):
    """returns a canonical digest; a rejected design gives ['rejected', exception type]"""
    kind = op["kind"]
    try:
        if kind == "netlist":
            from frame.netlist.netlist import Netlist
            src = copy.deepcopy(op["doc"])
            if op.get("file") is not None and isinstance(src, str):
                from gen import files
                src = files.write(op["file"], src)  # the design is loaded from a file (the same few file names are used again and again)
            nl = Netlist(src)
            out = ["ok", [[m.name, m.is_soft, m.is_hard, m.is_fixed, m.is_terminal, m.area(),
                           None if m.center is None else [m.center.x, m.center.y],
                           [[r.center.x, r.center.y, r.shape.w, r.shape.h, r.region, r.location.name] for r in m.rectangles]]
                          for m in nl.modules], [[[b.name for b in e.modules], e.weight] for e in nl.edges]]
            if mutate:
                # what was loaded belongs to the caller: it is moved, resized and re-flagged in place, then thrown away
                for m in nl.modules:
                    for r in m.rectangles:
                        r.center.x += 1.0
                        r.shape.w = r.shape.w * 2
                        r.fixed = not r.fixed
                    if m.center is not None:
                        m.center.y -= 0.5
                nl.modules.clear()
                nl.edges.append(None)
            return sig12(out)
        if kind == "die":
            from frame.die.die import Die
            from frame.netlist.netlist import Netlist
            if op.get("dietext") is not None:
                src = op["dietext"]  # a hand-written YAML document (literal forms, directives)
                if op.get("file") is not None:
                    from gen import files
                    src = files.write(op["file"], src)
                die = Die(src)
            else:
                c = op["die"]
                nl = Netlist(D.fixed_netlist_tree(c)) if c["fixed"] else None
                die = Die(D.die_tree(c), nl) if nl is not None else Die(D.die_tree(c))
            if op.get("split"):
                die.split_refinable_regions(2.0, op["split"])
            def rs(lst):
                return sorted([r.center.x, r.center.y, r.shape.w, r.shape.h, r.region] for r in lst)
            out = ["ok", rs(die.ground_regions), rs(die.specialized_regions), rs(die.blockages), rs(die.fixed_regions)]
            if mutate:
                for r in die.ground_regions + die.specialized_regions + die.blockages + die.fixed_regions:
                    r.center.x += 1.0
                    r.shape.h = r.shape.h * 2
                die.ground_regions.append(None)
                die.blockages.clear()
            return sig12(out)
        if kind == "alloc":
            from props import c02
            al = A.build(op["alloc"])
            for o in op["ops"]:
                snap = A.snapshot(al)
                o2 = c02.resolve_threshold(o, snap)
                if c02.predicted_cells(snap, o2) > 300:
                    break
                al = c02.apply_op(al, o2)
            out = ["ok", sorted([[a.rect.center.x, a.rect.center.y, a.rect.shape.w, a.rect.shape.h, a.rect.region, a.rect.fixed],
                                 sorted(a.alloc.items()), a.depth] for a in al.allocations),
                   bool(al.must_be_refined(0.5)), al.max_refinement_depth()]
            if mutate:
                for a in al.allocations:
                    a.rect.center.x += 1.0
                    a.rect.shape.w = a.rect.shape.w * 2
                    a.alloc.clear()
                al.allocations.clear()
            return sig12(out)
        if kind == "stog":
            from frame.netlist.netlist import Netlist
            src = copy.deepcopy(op["doc"])
            if op.get("file") is not None and isinstance(src, str):
                from gen import files
                src = files.write(op["file"], src)  # the design is loaded from a file (the same few file names are used again and again)
            nl = Netlist(src)
            m = nl.modules[0]
            return sig12(["ok", m.has_stog, [[r.center.x, r.center.y, r.location.name] for r in m.rectangles]])
        if kind == "deepsat":
            # one large constraint (hundreds or thousands of literals): the encoders recurse once per literal, so whether it can be
            # encoded depends on the interpreter's recursion limit - which nothing done before may have changed
            from tools.rect import satmanager as S
            from tools.rect import pseudobool as pb
            sm = S.SATManager()
            lits = [sm.newvar(i, "c") for i in range(int(op["n"]))]
            if op["what"] == "heule":
                sm.heuleencoding(lits, 3)
            else:
                e = pb.Expr()
                for l in lits:
                    e = e + l
                sm.pseudoboolencoding(e >= 2, bool(op.get("decomp")))
            return sig12(["ok", len(sm.clauses), sm.tcount])
        if kind == "sat":
            from props import c07
            from tools.rect import satmanager as S
            from pysat.solvers import Solver
            sc = op["script"]
            sm = S.SATManager()
            users = [sm.newvar(i, "u") for i in range(sc["nvars"])]
            verdicts = []
            for p in sc["posts"]:
                try:
                    c07.post_to(sm, p)
                    verdicts.append("ok")
                except Exception as e:
                    verdicts.append(type(e).__name__)
            names, cnf = c07.translate(sm.clauses)
            uid = []
            for i in range(sc["nvars"]):
                nm = "u%d" % i
                if nm not in names:
                    names[nm] = len(names) + 1
                uid.append(names[nm])
            models = []
            if not any(len(cl) == 0 for cl in cnf):
                s = Solver(bootstrap_with=cnf)
                import itertools
                for bits in itertools.product((0, 1), repeat=sc["nvars"]):
                    if s.solve(assumptions=[u if b else -u for u, b in zip(uid, bits)]):
                        models.append(list(bits))
                s.delete()
            res = sm.solve()
            # the generated CNF itself, up to the numbering of decision-diagram nodes: robdd_<id> is renamed to a hash of
            # the sub-diagram it denotes (the store assigns ids in order of first construction, which legitimately
            # depends on history; the diagram built for a constraint and the clauses emitted for it do not)
            from tools.rect import pseudobool as pb
            import hashlib
            hmemo = {0: "F", 1: "T"}

            def shash(i):
                if i not in hmemo:
                    v, a, b = pb.memory[i]
                    hmemo[i] = hashlib.sha1(("%s|%s|%s" % (v, shash(a), shash(b))).encode()).hexdigest()[:12]
                return hmemo[i]

            def lname(l):
                nm = l.v
                if nm.startswith("robdd_"):
                    nm = "R" + shash(int(nm[6:]))
                return ("" if l.s else "~") + nm
            structure = hashlib.sha1(json.dumps([sorted(lname(l) for l in cl) for cl in sm.clauses]).encode()).hexdigest()[:16]
            if mutate:
                sm.clauses.append([])
                sm.codified[999] = True
            return ["ok", verdicts, models, bool(res), len(sm.clauses), structure]
        if kind == "legal":
            from props import c09
            c = op["fp"]
            from tools.legalfloor import legalfloor as LF
            nl, model = c09.build_model(c)
            try:
                if mutate:
                    model.time_advance(3)  # a history operation that leaves its model half-way through the annealing
                    return ["ok"]
                model.time.assign(1000.0)
                met0 = sorted([g, e.name, bool(e.is_equation_met())] for g, e in c09.equations(model))
                slack = LF.get_epsilon()
                # the same model at a slightly illegal configuration (every width 2% smaller): which equations notice
                # depends on the slack the model was built with
                for m in model.M:
                    for w in m.w:
                        w.assign(w.evaluate() * 0.98)
                met1 = sorted([g, e.name, bool(e.is_equation_met())] for g, e in c09.equations(model))
                out = ["ok", met0, [len(m.x) for m in model.M], slack, met1]
            finally:
                c09.cleanup(model)
            return sig12(out)
        if kind == "strop":
            from tools.floorset_parser.floor_set_manager.strop import Strop
            txt = " ".join(op["rows"])
            if op.get("sizes"):
                h, w = list(op["sizes"][0]), list(op["sizes"][1])
                s = Strop(txt, h, w)
            else:
                h = w = None
                s = Strop(txt)
            out = ["ok", s.is_strop, sorted([[[r.rows.low, r.rows.high, r.columns.low, r.columns.high] for r in inst.rectangles()]
                                            for inst in s.instances()]), list(s.get_width)]
            if mutate:
                s.get_width.append(99)
                s._height.append(99)
                s._instances.clear()
            return sig12(out)
        raise ValueError(kind)
    except Exception as e:
        return ["rejected", type(e).__name__]


def _child(ops, probe, wfd):
    code = 0
    try:
        sys.stdout = io.StringIO()
        sys.stderr = io.StringIO()
        for op in ops:
            do_op(op, mutate=op.get("mutate", False))
        res = do_op(probe)
        os.write(wfd, json.dumps(res, sort_keys=True).encode())
    except BaseException as e:
        os.write(wfd, json.dumps(["child-error", type(e).__name__, str(e)[:200]]).encode())
        code = 1
    finally:
        os._exit(code)


def run_forked(ops, probe):
    r, w = os.pipe()
    pid = os.fork()
    if pid == 0:
        os.close(r)
        _child(ops, probe, w)
    os.close(w)
    try:
        chunks = []
        while True:
            b = os.read(r, 1 << 16)
            if not b:
                break
            chunks.append(b)
    except BaseException:
        with contextlib.suppress(Exception):
            os.kill(pid, signal.SIGKILL)
        raise
    finally:
        os.close(r)
        with contextlib.suppress(Exception):
            os.waitpid(pid, 0)
    return json.loads(b"".join(chunks).decode()) if chunks else ["child-error", "no output"]


def pristine():
    g = sys.modules.get("frame.geometry.geometry")
    pb = sys.modules.get("tools.rect.pseudobool")
    et = sys.modules.get("tools.legalfloor.expression_tree")
    ok = True
    if g is not None:
        ok = ok and g.Rectangle._distance_epsilon == -1.0 and g.Rectangle._area_epsilon == -1.0
    if pb is not None:
        ok = ok and pb.memory == [0, 1] and pb.mmap == {}
    if et is not None:
        ok = ok and et.named_variables == set()
    return ok


def run_case(c):
    # make sure the modules are imported in the parent (import only: nothing is executed)
    import frame.geometry.geometry  # noqa: F401
    import tools.rect.pseudobool  # noqa: F401
    import tools.legalfloor.expression_tree  # noqa: F401
    if not pristine():
        raise RuntimeError("the parent process has executed FRAME code: C20 would be meaningless")
    probe, hist = c["probe"], c["history"]
    a = run_forked([], probe)
    b = run_forked(hist, probe)
    if a and a[0] == "child-error" or b and b[0] == "child-error":
        raise RuntimeError("child failed: %s / %s" % (a, b))
    if a != b:
        da, db = json.dumps(a, sort_keys=True), json.dumps(b, sort_keys=True)
        k = next((i for i, (x, y) in enumerate(zip(da, db)) if x != y), min(len(da), len(db)))
        raise Violation("the result of the %s probe depends on the history: alone it gives ...%s..., after %s it gives ...%s...\nprobe: %s" % (
            probe["kind"], da[max(0, k - 80):k + 120], [h["kind"] + ("/" + h.get("note", "") if h.get("note") else "") for h in hist],
            db[max(0, k - 80):k + 120], json.dumps(probe)[:600]), "history-dependent:" + probe["kind"])
    fam = [h["kind"] for h in hist]
    cls = ["probe-" + probe["kind"]]
    if a[0] == "rejected":
        cls.append("probe-rejected")
    if any(h.get("note") == "terminal-only" or h.get("note") == "no-modules" for h in hist):
        cls.append("history-with-degenerate-netlist")
    if any(h.get("mutate") for h in hist):
        cls.append("history-mutates-results")
    if any(h.get("note") == "invalid" for h in hist):
        cls.append("history-with-rejected-design")
    if any(h.get("scale", 1) >= 100 for h in hist):
        cls.append("history-100x-larger")
    if any(h.get("scale", 1) * 100 <= probe.get("scale", 1) for h in hist):
        cls.append("history-at-a-smaller-scale")
    if probe.get("big"):
        cls.append("large-decimal-die-after-small-designs")
    if any((h.get("note") or "").startswith("yaml-text-with-directive") for h in hist) and (probe.get("note") or "").startswith("yaml-text"):
        cls.append("yaml-text-probe-after-a-document-with-a-directive")
    if probe["kind"] == "deepsat" and any(h["kind"] == "legal" for h in hist):
        cls.append("large-constraint-after-a-legaliser-model")
    if probe.get("file") is not None and any(h.get("file") == probe["file"] for h in hist):
        cls.append("probe-loaded-from-a-file-name-used-before")
    if any(h.get("note") == "same-inequalities-other-construction" for h in hist):
        cls.append("history-with-other-robdd-construction")
    if any(h.get("note") == "same-description-loaded-and-mutated-before" for h in hist):
        cls.append("same-description-loaded-and-mutated-before")
    if probe.get("note") == "depth-of-earlier-allocations":
        cls.append("allocation-measured-after-other-allocations-were-measured-and-dropped")
    return dict(nt=(len(hist) >= 2 and probe["kind"] in fam) or any(h.get("scale", 1) != probe.get("scale", 1) for h in hist) or bool(probe.get("big")), cls=cls)


# ---- generation ---------------------------------------------------------------------------------------------------

def scaled(unit, k):
    v = Fr(unit) * k
    return str(int(v)) if v.denominator == 1 else str(float(v))


YNAMES = ["A", "B1", "y", "N", "yes", "no", "on", "off", "Y", "n", "true", "null", "M_2", "x"]
YBOOLS = ["true", "True", "yes", "on", "y", "false", "no"]
YNUMS = ["10", "010", "1e1", "0o10", "1_0", "10.0", "+10", "0x10", "1:30", "8", "030", "12.5", "1.25e1"]
YHEAD = ["", "", "", "%YAML 1.1\n---\n", "%YAML 1.2\n---\n", "---\n"]


@st.composite
def yaml_text_s(draw, what):
    """A hand-written YAML document: plain (unquoted) names that YAML 1.1 reads as booleans, boolean and number literals in
    several spellings, optionally a %YAML directive.  Whether such a document is accepted is not the point (many are not): the
    verdict and what is loaded must not depend on which documents were read before."""
    head = draw(st.sampled_from(YHEAD))
    num = lambda: draw(st.sampled_from(YNUMS))
    if what == "die":
        t = head + "width: %s\nheight: %s\n" % (num(), num())
        if draw(st.booleans()):
            t += "regions: [[%s, %s, %s, %s, %s]]\n" % (draw(st.sampled_from(["4", "04", "4.0"])), draw(st.sampled_from(["3", "03", "3e0"])),
                                                        draw(st.sampled_from(["2", "02", "2.0"])), draw(st.sampled_from(["2", "0o2", "2"])),
                                                        draw(st.sampled_from(["dsp", "y", "on", "'#'"])))
        return t
    names = draw(st.permutations(YNAMES))[:draw(_i(2, 3))]
    lines = [head + "Modules:"]
    for i, n in enumerate(names):
        k = draw(_i(0, 2))
        if k == 0:
            lines.append("  %s: {area: %s, center: [%s, %s]}" % (n, num(), num(), num()))
        elif k == 1:
            lines.append("  %s: {fixed: %s, rectangles: [[%s, %s, %s, %s]]}" % (n, draw(st.sampled_from(YBOOLS)), num(), num(), "2", "04"))
        else:
            lines.append("  %s: {terminal: %s, center: [%s, %s]}" % (n, draw(st.sampled_from(YBOOLS)), num(), num()))
    lines.append("Nets: [[%s, %s%s]]" % (names[0], names[1], draw(st.sampled_from(["", ", 2", ", 02", ", 1e0"]))))
    return "\n".join(lines) + "\n"


@st.composite
def op_s(draw, base, allow_scale=True, allow_bad=True, kinds=None, force_text=False):
    k = draw(st.sampled_from([1, 1, 10, 100, 1000])) if allow_scale else 1
    unit = scaled(base, k)
    kind = draw(st.sampled_from(kinds or (FAMILIES + ["netlist", "die"])))
    op = dict(kind=kind, scale=k, mutate=draw(_i(0, 3)) == 0)
    if kind in ("netlist", "die") and (force_text or draw(_i(0, 5)) == 0):
        txt = draw(yaml_text_s(kind))
        op["note"] = "yaml-text" + ("-with-directive" if txt.startswith("%") else "")
        op["file"] = draw(st.sampled_from([None, None, 0, 0, 1]))
        if kind == "netlist":
            op["doc"] = txt
        else:
            op["dietext"] = txt
            op["die"] = None
            op["split"] = 0
        return op
    if kind == "netlist":
        t = draw(_i(0, 7)) if allow_bad else 5
        if t == 0:
            op["doc"] = {"Modules": {}, "Nets": []}
            op["note"] = "no-modules"
        elif t == 1:
            model = draw(G.netlist_model(kinds=("terminal",), units=[unit], max_modules=3))
            op["doc"] = G.to_tree(model)
            op["note"] = "terminal-only"
        else:
            model = draw(G.netlist_model(units=[unit], max_modules=4))
            doc = G.to_tree(model)
            if t == 2:
                from props import c05
                c05.inject(doc, draw(st.sampled_from(c05.DEFECTS)), [draw(_i(0, 11)) for _ in range(5)])
                op["note"] = "invalid"
            op["doc"] = doc
    elif kind == "die":
        c = draw(D.die_case(units=[unit], max_regions=5))
        if allow_bad and draw(_i(0, 4)) == 0 and c["regions"]:
            r = c["regions"][0]
            c["regions"].append([r[0], r[1], r[2], r[3], "B"])  # complete overlap: rejected
            op["note"] = "invalid"
        op["die"] = c
        op["split"] = draw(st.sampled_from([0, 0, 3, 8]))
    elif kind == "alloc":
        op["alloc"] = draw(A.alloc_case(units=[unit], sliver=False, max_leaves=6))
        ops = []
        for _ in range(draw(_i(1, 2))):
            j = draw(_i(0, 3))
            ops.append(["refine", draw(st.sampled_from([0.3, 0.5, 1, ["ratio", 1]])), 1] if j <= 1 else ["uniform"] if j == 2 else ["griddify"])
        op["ops"] = ops
    elif kind == "stog":
        from gen.stog import stog_rects
        from gen import lattice as L
        from vfw import exact as X
        rects, _ = draw(stog_rects(draw(_i(0, 5)), draw(_i(0, 5)), 2, 5, 3, 5))
        if draw(_i(0, 3)) == 0 and len(rects) > 1:
            r = rects[-1]
            rects[-1] = [r[0] + 1, r[1] + 1, r[2] + 1, r[3] + 1]  # near miss
        rects = list(draw(st.permutations(rects)))
        rl = [[X.num(v) for v in L.csr(r, unit)] for r in rects]
        area = float(sum((r[2] - r[0]) * (r[3] - r[1]) for r in rects) * Fr(unit) ** 2)
        op["doc"] = {"Modules": {"P": {"area": area, "rectangles": rl}}, "Nets": []}
    elif kind == "sat":
        from props import c07
        sc = draw(c07.script_s())
        op["script"] = dict(nvars=sc["nvars"], posts=sc["posts"])
    elif kind == "legal":
        op["fp"] = draw(FP.floorplan(max_modules=2, units=[unit]))
    else:
        from props import c15
        g = draw(c15.random_grid_s())
        op["rows"] = g["rows"]
        op["sizes"] = g["sizes"]
    return op


@st.composite
def case_s(draw):
    base = draw(st.sampled_from(["0.1", "0.5", "1", "2", "10"]))
    probe = draw(op_s(base, allow_scale=draw(_i(0, 2)) == 0, allow_bad=True))
    probe["mutate"] = False
    n = draw(st.sampled_from([0, 1, 2, 2, 3, 4, 6]))
    hist = []
    for i in range(n):
        h = draw(op_s(base))
        if i == 0 and draw(_i(0, 2)) == 0:
            # same family as the probe: touches the same process-wide state
            h2 = draw(op_s(base))
            for _ in range(6):
                if h2["kind"] == probe["kind"]:
                    break
                h2 = draw(op_s(base))
            h = h2
        hist.append(h)
    if probe["kind"] in ("netlist", "die", "alloc", "stog") and draw(_i(0, 3)) == 0:
        # the very same description was loaded earlier by someone else, who changed what came out of it in place and dropped it
        twin = copy.deepcopy(probe)
        twin["mutate"] = True
        twin["note"] = "same-description-loaded-and-mutated-before"
        hist.insert(draw(_i(0, len(hist))), twin)
    if probe["kind"] == "alloc" and draw(_i(0, 1)) == 0:
        # allocations that were measured / brought to uniform depth and dropped before the probed one is loaded and measured
        probe["ops"] = probe["ops"][:1] + [["uniform"]]
        hist = []
        for _ in range(draw(_i(2, 5))):
            h = draw(op_s(base, allow_scale=False, allow_bad=False, kinds=["alloc"]))
            h["ops"] = h["ops"][:draw(_i(0, 1))] + [["uniform"]]
            hist.append(h)
        probe["note"] = "depth-of-earlier-allocations"
    if probe["kind"] == "sat" and hist and draw(_i(0, 2)) == 0:
        # another manager encodes the probe's inequalities with the OTHER decision-diagram construction first
        twin = copy.deepcopy(probe)
        for p in twin["script"]["posts"]:
            if p[0] == "pb":
                p[4] = not p[4]
        twin["note"] = "same-inequalities-other-construction"
        hist[draw(_i(0, len(hist) - 1))] = twin
    return dict(probe=probe, history=hist)


GEOMETRIC = ["netlist", "die", "die", "alloc", "stog"]


@st.composite
def scales_s(draw):
    """Geometric operations only, decimal units, probe and history at different scales in either order: the class-wide
    tolerances are set by whichever design comes first, and no verdict or region may depend on that."""
    base = draw(st.sampled_from(["0.1", "0.1", "0.3", "0.7", "1.1", "0.5", "1"]))
    mode = draw(_i(0, 3))
    if draw(_i(0, 29)) == 0:
        # a constraint over 300-3000 literals probed after a legaliser model (and other things) were built
        what, n = draw(st.sampled_from([("heule", 1500), ("heule", 3000), ("heule", 6000), ("heule", 300), ("pb", 300)]))
        probe = dict(kind="deepsat", scale=1, mutate=False, n=n, what=what, decomp=draw(st.booleans()))
        hist = [draw(op_s(base, allow_scale=False, kinds=["legal"]))] + ([draw(op_s(base, allow_scale=False, kinds=["strop", "stog"]))] if draw(st.booleans()) else [])
        return dict(probe=probe, history=hist)
    if mode == 3:
        # hand-written YAML documents only (literal forms, plain names, %YAML directives), probe and history
        probe = draw(op_s(base, allow_scale=False, kinds=["netlist", "die"], force_text=True))
        probe["mutate"] = False
        hist = [draw(op_s(base, allow_scale=False, kinds=["netlist", "die"], force_text=draw(_i(0, 3)) > 0)) for _ in range(draw(_i(1, 3)))]
        return dict(probe=probe, history=hist)
    if mode == 0:
        # a die of 100-800 lattice units (decimal coordinates at an ordinary size, e.g. 33.3 x 40.6 on a 120 x 100 die) probed
        # after designs of 1-12 units on the same lattice: dimensions within a factor of 1000
        probe = dict(kind="die", scale=1, mutate=False, big=True, split=draw(st.sampled_from([0, 0, 3, 8])),
                     die=draw(D.die_case(units=[base], max_regions=5, min_side=100, max_side=800)))
        hist = [draw(op_s(base, allow_scale=False, allow_bad=draw(_i(0, 3)) == 0, kinds=GEOMETRIC)) for _ in range(draw(_i(1, 2)))]
        return dict(probe=probe, history=hist)
    probe = draw(op_s(base, allow_scale=True, allow_bad=False, kinds=GEOMETRIC))
    probe["mutate"] = False
    hist = [draw(op_s(base, allow_scale=True, allow_bad=draw(_i(0, 3)) == 0, kinds=GEOMETRIC)) for _ in range(draw(_i(1, 2)))]
    return dict(probe=probe, history=hist)


def subchecks():
    return [Sub("scales", run_case, strategy=scales_s(), n_quick=6000, n_thorough=300000, reset=False, shrink_quick=True,
                required=("history-at-a-smaller-scale", "history-100x-larger", "large-decimal-die-after-small-designs",
                          "yaml-text-probe-after-a-document-with-a-directive", "probe-loaded-from-a-file-name-used-before",
                          "large-constraint-after-a-legaliser-model")),
            Sub("histories", run_case, strategy=case_s(), n_quick=1600, n_thorough=40000, reset=False, shrink_quick=True,
                required=tuple("probe-" + f for f in FAMILIES) + ("history-with-degenerate-netlist", "history-mutates-results",
                                                                   "history-with-rejected-design", "history-100x-larger", "probe-rejected",
                                                                   "history-with-other-robdd-construction",
                                                                   "allocation-measured-after-other-allocations-were-measured-and-dropped",
                                                                   "same-description-loaded-and-mutated-before"))]
