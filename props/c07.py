"""C07  SAT layer: every posted constraint is encoded exactly (tools/rect/satmanager.py, pseudobool.py)."""
import itertools

from hypothesis import strategies as st
from pysat.solvers import Solver

from tools.rect import pseudobool as pb
from tools.rect import satmanager as S
from vfw.core import Sub, Violation

PROP = "C07"
RULE = ("a case is a posting script: 0-4 earlier managers encoding other inequalities in the same process (shared ROBDD "
        "store, no reset), then 1-6 constraints over 1-7 user variables: clauses, imply, pairwise and Heule at-most-one "
        "(group size 0-10, k 3-6), pseudo-Boolean inequalities (0-6 terms, coefficients -7..7 incl. 0 and repeated variables, "
        "bound -12..25, five operators, both ROBDD constructions). Oracle: for ALL assignments of the user variables, "
        "'extends to a model of SATManager.clauses' (PySAT on an independent translation) iff direct integer evaluation of "
        "every accepted constraint holds; then solve()/value()/evalexpr(), also solve() between posts and after a solve() that failed "
        "on a literal whose variable was registered afterwards. non-trivial = at least one constraint that is "
        "neither a tautology nor unsatisfiable on its own; distinct = distinct script.")
ASSUMPTIONS = [
    "the PySAT solver is trusted (FRAME uses the same); cross-checked by brute force over all CNF variables on small formulas",
    "a constraint whose posting raises is a refusal and leaves the specification; clauses it left behind must still be harmless",
    "user variable names do not collide with the layer's internal prefixes (robdd_, aux_)",
]

OPS = [">=", "<=", ">", "<", "="]


def lit_val(l, asg):
    v = asg[l[0]]
    return v if l[1] else 1 - v


def holds(post, asg):
    k = post[0]
    if k == "clause":
        return any(lit_val(l, asg) for l in post[1])
    if k == "imply":
        return (not all(lit_val(l, asg) for l in post[1])) or bool(lit_val(post[2], asg))
    if k in ("amo_quad", "amo_heule"):
        return sum(lit_val(l, asg) for l in post[1]) <= 1
    if k == "exactly_one":
        # at most one (either encoding) AND at least one, posted from ONE list object
        return sum(lit_val(l, asg) for l in post[1]) == 1
    if k == "pb":
        s = sum(c * lit_val((v, sg), asg) for c, v, sg in post[1])
        op, b = post[2], post[3]
        return s >= b if op == ">=" else s <= b if op == "<=" else s > b if op == ">" else s < b if op == "<" else s == b
    if k == "pb-scaled":
        # k * (base) op bound, built through whole-expression scaling
        sv = post[2] * sum(c * lit_val((v, sg), asg) for c, v, sg in post[1])
        op, b = post[3], post[4]
        return sv >= b if op == ">=" else sv <= b if op == "<=" else sv > b if op == ">" else sv < b if op == "<" else sv == b
    if k == "pb-shared":
        # two inequalities over a shared sub-expression: (base + extra) op1 b1   and   base op2 b2
        base = sum(c * lit_val((v, sg), asg) for c, v, sg in post[1])
        extra = sum(c * lit_val((v, sg), asg) for c, v, sg in post[2])
        def cmp(x, op, b):
            return x >= b if op == ">=" else x <= b if op == "<=" else x > b if op == ">" else x < b if op == "<" else x == b
        return cmp(base + extra, post[3], post[4]) and cmp(base, post[5], post[6])
    raise ValueError(k)


def mk_lit(sm, l):
    if ("u%d" % l[0]) in getattr(sm, "late_vars", ()):
        x = pb.Literal("u%d" % l[0])  # a literal built by hand; its variable is registered with the manager later on
        return x if l[1] else -x
    x = sm.newvar(l[0], "u")
    return x if l[1] else -x


def mk_ineq(sm, post):
    e = pb.Expr()
    for c, v, sg in post[1]:
        e = e + c * mk_lit(sm, (v, sg))
    op, b = post[2], post[3]
    return (e >= b) if op == ">=" else (e <= b) if op == "<=" else (e > b) if op == ">" else (e < b) if op == "<" else (e == b)


def post_to(sm, post):
    k = post[0]
    if k == "clause":
        sm.add_clause([mk_lit(sm, l) for l in post[1]])
    elif k == "imply":
        sm.imply([mk_lit(sm, l) for l in post[1]], mk_lit(sm, post[2]))
    elif k == "amo_quad":
        sm.quadraticencoding([mk_lit(sm, l) for l in post[1]])
    elif k == "amo_heule":
        sm.heuleencoding([mk_lit(sm, l) for l in post[1]], post[2])
    elif k == "exactly_one":
        # the usual idiom: the same list object goes to the at-most-one encoder and to add_clause, in either order
        lst = [mk_lit(sm, l) for l in post[1]]
        if post[3]:
            sm.add_clause(lst)
        if post[2] >= 3:
            sm.heuleencoding(lst, post[2])
        else:
            sm.quadraticencoding(lst)
        if not post[3]:
            sm.add_clause(lst)
    elif k == "pb":
        # one inequality OBJECT may be looked at and posted more than once (once per construction, after an isclause() query, again
        # after having been refused): a redundant posting restricts nothing further, a refused one stays refused
        ineq = mk_ineq(sm, post)
        how = post[5] if len(post) > 5 else None
        if how == "query-first":
            ineq.isclause()
            ineq.isclause()
        try:
            sm.pseudoboolencoding(ineq, bool(post[4]))
        except Exception:
            if how not in ("twice", "retry"):
                raise
            sm.pseudoboolencoding(ineq, bool(post[4]))  # (raises again = refused; accepted now = it has to be exact)
        else:
            if how == "twice":
                sm.pseudoboolencoding(ineq, bool(post[4]))
            elif how == "both":
                sm.pseudoboolencoding(ineq, not bool(post[4]))
    elif k == "pb-scaled":
        base = pb.Expr()
        for c, v, sg in post[1]:
            base = base + c * mk_lit(sm, (v, sg))
        e = (post[2] * base) if post[6] else (base * post[2])  # int * Expr and Expr * int
        op, b = post[3], post[4]
        ineq = (e >= b) if op == ">=" else (e <= b) if op == "<=" else (e > b) if op == ">" else (e < b) if op == "<" else (e == b)
        sm.pseudoboolencoding(ineq, bool(post[5]))
    elif k == "pb-shared":
        # the way rect.py works: one expression object is reused in several inequalities; the second inequality is
        # BUILT before the first one is derived and POSTED after it
        base = pb.Expr()
        for c, v, sg in post[1]:
            base = base + c * mk_lit(sm, (v, sg))
        def mk(e, op, b):
            return (e >= b) if op == ">=" else (e <= b) if op == "<=" else (e > b) if op == ">" else (e < b) if op == "<" else (e == b)
        second = mk(base, post[5], post[6]) if post[8] else None
        e1 = base
        for c, v, sg in post[2]:
            e1 = e1 + c * mk_lit(sm, (v, sg))
        if post[9]:
            e1 = e1 * 1 + 0
        first = mk(e1, post[3], post[4])
        err = None
        for ineq in (first, second if second is not None else mk(base, post[5], post[6])):
            try:
                sm.pseudoboolencoding(ineq, bool(post[7]))
            except Exception as e:  # refusing one of the two is a refusal of the pair
                err = e
        if err is not None:
            raise err
    else:
        raise ValueError(k)


def translate(clauses):
    names = {}
    out = []
    for c in clauses:
        cc = []
        for l in c:
            if l.v not in names:
                names[l.v] = len(names) + 1
            cc.append(names[l.v] if l.s else -names[l.v])
        out.append(cc)
    return names, out


def brute_sat(cnf, nv, fixed):
    """is there an assignment of variables 1..nv extending `fixed` (dict var->bool) satisfying cnf?"""
    free = [v for v in range(1, nv + 1) if v not in fixed]
    for bits in itertools.product((False, True), repeat=len(free)):
        a = dict(fixed)
        a.update(zip(free, bits))
        if all(any(a[abs(l)] == (l > 0) for l in c) for c in cnf):
            return True
    return False


def fill_store(target=70000):
    """a long run: other managers encode inequalities of 22 literals until the process-wide diagram store holds `target` nodes (about
    60 encodings, 2-3 s; nothing to do when an earlier case of this process already got there)"""
    co = [3, 5, 7, 11, 13, 17, 19, 23, 29, 31, 37, 41, 43, 47, 53, 59, 61, 67, 71, 73, 79, 83]
    k = 0
    while len(pb.memory) < target and k < 200:
        hm = S.SATManager()
        e = pb.Expr()
        for cf, i in zip(co, range(len(co))):
            e = e + (cf + k) * hm.newvar(i, "fill%d_" % k)
        try:
            hm.pseudoboolencoding(e >= sum(co) // 2 + k)
        except Exception as ex:
            raise Violation("an inequality of 22 literals (coefficients %d ... %d, the %d-th of a long run, %d nodes in the store) could not be encoded: "
                            "%s: %s" % (co[0] + k, co[-1] + k, k + 1, len(pb.memory), type(ex).__name__, ex), "encoding-raised-in-a-long-run")
        k += 1
    return len(pb.memory) >= target


def run_script(c):
    nvars = c["nvars"]
    cls = []
    # ---- history: other managers encode other inequalities first, sharing the process-wide diagram store
    for hposts in c["history"]:
        hm = S.SATManager()
        for p in hposts:
            try:
                post_to(hm, p)
            except Exception:
                pass
        if len(hposts) % 2:
            try:
                hm.solve()  # (an earlier manager that was solved: what it found is its own business)
            except Exception:
                pass
    if c["history"]:
        cls.append("history")
    if c.get("fill") and fill_store():
        cls.append("after-a-long-run-that-filled-the-diagram-store")
    # ---- the probed manager
    sm = S.SATManager()
    late = c.get("late")
    if late is not None and late < nvars:
        sm.late_vars = {"u%d" % late}
    else:
        late = None
    users = [sm.newvar(i, "u") if i != late else pb.Literal("u%d" % i) for i in range(nvars)]
    accepted = []
    for pi, p in enumerate(c["posts"]):
        if late is None and pi in (c.get("solve_at") or ()):
            # solving in between: the verdict is the one for what has been posted so far, and later posts still count
            try:
                mid = sm.solve()
            except Exception as e:
                raise Violation("solve() raised %s: %s after posts=%s" % (type(e).__name__, e, c["posts"][:pi]), "solve-raised")
            want_mid = any(all(holds(q, dict(enumerate(bits))) for q in accepted) for bits in itertools.product((0, 1), repeat=nvars))
            if bool(mid) != want_mid:
                raise Violation("solve() after the first %d posts returned %r but they are %s; posts=%s" % (
                    pi, mid, "satisfiable" if want_mid else "unsatisfiable", c["posts"][:pi]), "solve-verdict")
            cls.append("solved-in-between")
        before = len(sm.clauses)
        try:
            post_to(sm, p)
            accepted.append(p)
            if p[0] == "pb-shared":
                cls.append("shared-subexpression")
            if p[0] == "pb-scaled":
                cls.append("scaled-expression")
                if p[2] < 0 and any((t[0] < 0) != (not t[2]) for t in p[1]):
                    cls.append("negative-multiple-of-a-negated-term")
            if p[0] == "pb" and len(p) > 5 and p[5]:
                cls.append("same-inequality-object-used-again")
            if p[0] == "pb":
                ineq = mk_ineq(S.SATManager(), p)
                cls.append("pb-clause-shortcut" if ineq.isclause() else ("pb-robdd-decomp" if p[4] else "pb-robdd"))
            if p[0] == "exactly_one" and p[2] >= 3 and len(p[1]) > p[2]:
                cls.append("exactly-one-from-one-list-chained")
            if p[0] == "amo_heule" and len(p[1]) > 2 * p[2] - 2:
                cls.append("heule-depth2")
            if p[0] in ("amo_heule", "amo_quad") and len(p[1]) >= 2:
                cls.append("amo")
        except Exception as e:
            cls.append("refused")
            refused_clauses = sm.clauses[before:]
            if refused_clauses:
                cls.append("refused-left-clauses")
    names, cnf = translate(sm.clauses)
    uid = {}
    for i in range(nvars):
        nm = "u" + str(i)
        if nm not in names:
            names[nm] = len(names) + 1
        uid[i] = names[nm]
    nv = len(names)
    solver = Solver(bootstrap_with=[cl for cl in cnf if cl])
    has_empty = any(len(cl) == 0 for cl in cnf)
    sat_any = False
    nontrivial = False
    single = [[holds(p, dict(enumerate(bits))) for bits in itertools.product((0, 1), repeat=nvars)] for p in accepted]
    nontrivial = any(any(col) and not all(col) for col in single)
    try:
        for bits in itertools.product((0, 1), repeat=nvars):
            asg = dict(enumerate(bits))
            want = all(holds(p, asg) for p in accepted)
            got = (not has_empty) and solver.solve(assumptions=[uid[i] if bits[i] else -uid[i] for i in range(nvars)])
            if got != want:
                bad = [p for p in accepted if not holds(p, asg)]
                raise Violation("assignment %s of the user variables %s all posted constraints but %s to a model of the CNF; "
                                "posts=%s%s" % (asg, "satisfies" if want else "violates", "extends" if got else "does not extend",
                                                c["posts"], (" violated: %s" % bad) if bad else ""),
                                "cnf-too-strong" if want else "cnf-too-weak")
            sat_any = sat_any or want
    finally:
        solver.delete()
    # cross-check of the trusted solver on small formulas
    if nv <= 16 and (len(c["posts"]) + nvars) % 7 == 0:
        for bits in itertools.product((0, 1), repeat=nvars):
            want = all(holds(p, dict(enumerate(bits))) for p in accepted)
            if brute_sat(cnf, nv, {uid[i]: bool(bits[i]) for i in range(nvars)}) != want:
                raise Violation("brute force disagrees with the specification on %s; posts=%s" % (bits, c["posts"]), "cnf-brute")
        cls.append("brute-crosscheck")
    # ---- solve / value / evalexpr
    if late is not None:
        # the forgotten variable makes solve() fail; the user registers it and solves again: every posted constraint still counts
        try:
            sm.solve()
        except Exception:
            cls.append("solve-failed-on-a-variable-registered-afterwards")
        sm.late_vars = set()
        users[late] = sm.newvar(late, "u")
    try:
        res = sm.solve()
    except Exception as e:
        raise Violation("solve() raised %s: %s; posts=%s" % (type(e).__name__, e, c["posts"]), "solve-raised")
    if bool(res) != sat_any:
        raise Violation("solve() returned %r but the posted constraints are %s; posts=%s" % (
            res, "satisfiable" if sat_any else "unsatisfiable", c["posts"]), "solve-verdict")
    if res:
        asg = {}
        for i in range(nvars):
            v = sm.value(users[i])
            nv_ = sm.value(-users[i])
            if v not in (0, 1) or nv_ != 1 - v:
                raise Violation("value() of user variable u%d is %r / negated %r after a successful solve()" % (i, v, nv_), "value")
            asg[i] = v
        bad = [p for p in accepted if not holds(p, asg)]
        if bad:
            raise Violation("the model exposed by value() %s violates posted constraint %s" % (asg, bad[0]), "model-violates")
        for p in accepted:
            if p[0] == "pb":
                ineq = mk_ineq(sm, p)
                want = sum(t.c * (asg[int(t.L.v[1:])] if t.L.s else 1 - asg[int(t.L.v[1:])]) for t in ineq.lhs.t.values())
                if sm.evalexpr(ineq.lhs) != want:
                    raise Violation("evalexpr(%s) = %r under model %s, direct evaluation %s" % (
                        ineq.lhs.tostr(), sm.evalexpr(ineq.lhs), asg, want), "evalexpr")
        # another manager with variables of the same names is solved in between (one manager per module is how rect.py works): the model
        # this manager exposes is still its own
        other = S.SATManager()
        for i in range(nvars):
            x = other.newvar(i, "u")
            other.add_clause([-x if asg[i] else x])
        try:
            other.solve()
        except Exception as e:
            raise Violation("solve() of a second manager raised %s: %s" % (type(e).__name__, e), "solve-raised")
        again = {i: sm.value(users[i]) for i in range(nvars)}
        if again != asg:
            raise Violation("after another manager (same variable names, opposite values) was solved, value() of this manager gives %s; "
                            "its own model was %s; posts=%s" % (again, asg, c["posts"]), "model-shared-between-managers")
        cls.append("sat")
    else:
        cls.append("unsat")
    return dict(nt=nontrivial, cls=cls)


# ---- strategy ------------------------------------------------------------------------------------
_i = st.integers


@st.composite
def script_s(draw):
    nvars = draw(st.sampled_from([1, 2, 3, 4, 4, 5, 5, 6, 6, 7, 7]))

    def lit(n=nvars):
        return [draw(_i(0, n - 1)), draw(st.booleans())]

    def pbpost(n=nvars, maxterms=6):
        nt = draw(_i(2, maxterms)) if draw(_i(0, 3)) else draw(_i(0, 1))
        style = draw(_i(0, 3))
        terms = []
        distinct = draw(_i(0, 2)) > 0 and nt <= n
        pool = draw(st.permutations(list(range(n)))) if distinct else None
        for j in range(nt):
            cf = draw(_i(-7, 7)) if style else draw(_i(1, 3))
            terms.append([cf, pool[j] if distinct else draw(_i(0, n - 1)), draw(st.booleans()) if style != 1 else True])
        op = draw(st.sampled_from(OPS)) if draw(_i(0, 3)) == 0 else draw(st.sampled_from([">=", "<="]))
        total_pos = sum(t[0] for t in terms if t[0] > 0)
        total_neg = sum(t[0] for t in terms if t[0] < 0)
        w = draw(_i(0, 7))
        if w == 0:
            bound = draw(_i(-12, 25))
        elif w == 1 or total_pos - total_neg < 3:
            bound = draw(_i(total_neg - 1, total_pos + 1))
        else:
            bound = draw(_i(total_neg + 1, total_pos - 1))
        return ["pb", terms, op, bound, draw(st.booleans()), draw(st.sampled_from([None, None, None, "twice", "query-first", "both", "retry"]))]

    def shared():
        n = nvars
        base = [[draw(_i(1, 4)), draw(_i(0, n - 1)), draw(st.booleans())] for _ in range(draw(_i(1, 4)))]
        extra = [[draw(_i(-3, 4)), draw(_i(0, n - 1)), draw(st.booleans())] for _ in range(draw(_i(1, 3)))]
        if draw(st.booleans()):  # an extra term on a variable of the base: the merge happens inside a shared term
            extra[0][1] = base[0][1]
        tb = sum(t[0] for t in base)
        te = sum(t[0] for t in extra if t[0] > 0)
        ops = [">=", ">=", "<=", ">=", "<="]
        return ["pb-shared", base, extra, draw(st.sampled_from(ops)), draw(_i(0, tb + te)), draw(st.sampled_from(ops)), draw(_i(0, tb)),
                draw(st.booleans()), draw(st.booleans()), draw(st.booleans())]

    def scaled():
        base = [[draw(_i(-3, 4)), draw(_i(0, nvars - 1)), draw(st.booleans())] for _ in range(draw(_i(1, 4)))]
        k = draw(st.sampled_from([-1, -2, -3, 2, 3, 0, 1]))
        lo = sum(min(0, k * t[0]) for t in base)
        hi = sum(max(0, k * t[0]) for t in base)
        return ["pb-scaled", base, k, draw(st.sampled_from([">=", "<=", ">", "<", "="])), draw(_i(lo - 1, hi + 1)), draw(st.booleans()), draw(st.booleans())]

    def post():
        k = draw(_i(0, 11))
        if k == 10:
            return shared()
        if k == 11:
            return scaled()
        if k == 0:
            return ["clause", [lit() for _ in range(draw(_i(0, 4)))]]
        if k == 1:
            return ["imply", [lit() for _ in range(draw(_i(0, 3)))], lit()]
        if k == 2:
            return ["amo_quad", [lit() for _ in range(draw(_i(0, 6)))]]
        if k == 3:
            return ["exactly_one", [lit() for _ in range(draw(_i(1, 9)))], draw(st.sampled_from([0, 3, 3, 4])), draw(st.booleans())]
        if k == 4:
            return ["amo_heule", [lit() for _ in range(draw(_i(0, 10)))], draw(_i(3, 6))]
        return pbpost()

    posts = [post() for _ in range(draw(st.sampled_from([1, 1, 2, 2, 3, 4, 6])))]
    # related constraints in the same manager: a later inequality that is a sub-problem of an earlier one (the earlier one
    # without its largest term, with the bound unchanged or reduced by that coefficient) shares decision-diagram nodes with it
    if draw(_i(0, 2)) == 0:
        pbs = [p for p in posts if p[0] == "pb" and len(p[1]) >= 2]
        if pbs:
            base = pbs[draw(_i(0, len(pbs) - 1))]
            terms = sorted(base[1], key=lambda t: -abs(t[0]))
            big = terms[0]
            rest = [list(t) for t in terms[1:]]
            bound = base[3] if draw(st.booleans()) else base[3] - (big[0] if big[2] else 0)
            derived = ["pb", rest, base[2], bound, base[4] if draw(_i(0, 3)) else not base[4]]
            pos = draw(_i(0, len(posts)))
            posts.insert(pos, derived)
    history = []
    for _ in range(draw(st.sampled_from([0, 0, 1, 2, 4]))):
        hn = 7
        history.append([pbpost(hn) for _ in range(draw(_i(1, 3)))])
    return dict(nvars=nvars, posts=posts, history=history, fill=draw(_i(0, 249)) == 0, late=draw(_i(0, nvars - 1)) if draw(_i(0, 5)) == 0 else None,
                solve_at=sorted({draw(_i(0, len(posts))) for _ in range(draw(_i(1, 2)))}) if draw(_i(0, 3)) == 0 else [])


def subchecks():
    return [
        Sub("scripts", run_script, strategy=script_s(), n_quick=12000, n_thorough=300000, fuzz_thorough=6000,
            required=("pb-robdd", "pb-robdd-decomp", "pb-clause-shortcut", "heule-depth2", "refused", "history", "sat", "unsat", "shared-subexpression", "same-inequality-object-used-again", "scaled-expression", "negative-multiple-of-a-negated-term", "exactly-one-from-one-list-chained", "solved-in-between",
                      "solve-failed-on-a-variable-registered-afterwards")),
    ]
