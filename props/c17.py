"""C17  Disc-overlap area is total, symmetric, bounded and accurate (tools/force/fruchterman_reingold.py)."""
import math
from fractions import Fraction as Fr

import mpmath
from hypothesis import strategies as st

from frame.die.die import Die
from frame.geometry.geometry import Point, Rectangle
from tools.force.fruchterman_reingold import circle_circle_intersection_area
from vfw.core import Sub, Violation

PROP = "C17"
RULE = ("two discs: radii log-uniform in [1e-3, 1e3] or decimal multiples of 0.1 (equal radii in a quarter of the cases), "
        "first centre arbitrary / decimal / origin, second centre placed at a target distance (r1+r2, |r1-r2|, 0, inside, "
        "crossing, far, random, or tiny: 1e-5 ... 1e-320) along an axis, a 3-4-5 direction or a random angle, then moved by -4..+4 ulps with "
        "math.nextafter; 'shallow' overlaps of 1e-4 ... 1e-2 of the size; in half of the cases a die of 3 ... 10 000 radii is built first "
        "(process-wide rectangle tolerances defined). Oracle: 50-digit mpmath lens area of the float inputs. non-trivial = centre distance within 8 ulps "
        "of r1+r2 or |r1-r2|, or r1 == r2; distinct = distinct (c1, r1, c2, r2).")
ASSUMPTIONS = [
    "radii are positive finite floats in [1e-3, 1e3], centres finite floats of magnitude <= 1e4",
    "tolerances as in the property: accuracy 1e-5 R^2, symmetry 1e-6 R^2, bounds +-1e-9 R^2 (R = larger radius)",
    "mpmath at 50 digits is the reference for acos/sqrt/pi",
]

mpmath.mp.dps = 50


def lens(x1, y1, r1, x2, y2, r2):
    m = mpmath.mpf
    dx, dy = Fr(x1) - Fr(x2), Fr(y1) - Fr(y2)
    d2 = dx * dx + dy * dy
    R1, R2 = Fr(r1), Fr(r2)
    if d2 >= (R1 + R2) ** 2:
        return m(0)
    if d2 <= (R1 - R2) ** 2:
        return mpmath.pi * m(min(r1, r2)) ** 2
    d = mpmath.sqrt(m(d2.numerator) / m(d2.denominator))
    a, b = m(r1), m(r2)
    alpha = mpmath.acos((a * a + d * d - b * b) / (2 * a * d))
    beta = mpmath.acos((b * b + d * d - a * a) / (2 * b * d))
    return a * a * alpha + b * b * beta - d * a * mpmath.sin(alpha)


def run_discs(c):
    # the function is used on the modules of a die: a die (of any size relative to the discs) may have been built before, which
    # defines the process-wide tolerances of the rectangle geometry; the overlap area of two discs is what it is all the same
    Rectangle.undefine_epsilon()
    try:
        if c.get("die"):
            Die({"width": float(c["die"][0]), "height": float(c["die"][1])})
        return _run_discs(c)
    finally:
        Rectangle.undefine_epsilon()


def _run_discs(c):
    x1, y1, r1, x2, y2, r2 = (float(v) for v in c["d"])
    R = max(r1, r2)
    res = []
    # the caller's centre objects are used for every call (as total_intersection_area does with the modules' centres)
    p1, p2 = Point(x1, y1), Point(x2, y2)
    for args in ((p1, r1, p2, r2), (p2, r2, p1, r1), (p1, r1, p2, r2)):
        try:
            a = circle_circle_intersection_area(*args)
        except Exception as e:
            raise Violation("circle_circle_intersection_area(%r, %r, %r, %r) raised %s: %s" % (
                (args[0].x, args[0].y), args[1], (args[2].x, args[2].y), args[3], type(e).__name__, e), "raised")
        if not isinstance(a, (int, float)) or not math.isfinite(a):
            raise Violation("circle_circle_intersection_area%r returned %r" % (tuple(c["d"]), a), "not-finite")
        res.append(float(a))
        if (p1.x, p1.y, p2.x, p2.y) != (x1, y1, x2, y2):
            raise Violation("circle_circle_intersection_area%r altered the centres it was given: they are now (%r, %r) and (%r, %r)" % (
                tuple(c["d"]), p1.x, p1.y, p2.x, p2.y), "centres-altered")
    if res[2] != res[0]:
        raise Violation("the same call on the same centre objects gives %r the first time and %r the second time (%r)" % (res[0], res[2], tuple(c["d"])),
                        "not-repeatable")
    res = res[:2]
    a, b = res
    what = "c1=(%r,%r) r1=%r c2=(%r,%r) r2=%r" % (x1, y1, r1, x2, y2, r2)
    if abs(a - b) > 1e-6 * R * R:
        raise Violation("not symmetric: %s gives %r, swapped %r" % (what, a, b), "symmetry")
    small = math.pi * min(r1, r2) ** 2
    for v in res:
        if v < -1e-9 * R * R or v > small + 1e-9 * R * R:
            raise Violation("out of bounds: %s gives %r, smaller disc has area %r" % (what, v, small), "bounds")
    ref = lens(x1, y1, r1, x2, y2, r2)
    for v in res:
        if abs(mpmath.mpf(v) - ref) > mpmath.mpf(1e-5) * R * R:
            raise Violation("inaccurate: %s gives %r, exact lens area %s" % (what, v, mpmath.nstr(ref, 17)), "accuracy")
    # the caller moves a centre IN PLACE (as the layout loop does) and asks again: the answer is the one for the new position
    if c.get("then"):
        nx, ny = (float(v) for v in c["then"])
        p2.x, p2.y = nx, ny
        try:
            v2 = float(circle_circle_intersection_area(p1, r1, p2, r2))
        except Exception as e:
            raise Violation("after moving the second centre in place to (%r, %r): raised %s: %s" % (nx, ny, type(e).__name__, e), "raised")
        ref2 = lens(x1, y1, r1, nx, ny, r2)
        if abs(mpmath.mpf(v2) - ref2) > mpmath.mpf(1e-5) * R * R:
            raise Violation("after moving the second centre in place from (%r, %r) to (%r, %r): %s (radii unchanged) gives %r, exact lens area %s" % (
                x2, y2, nx, ny, what, v2, mpmath.nstr(ref2, 17)), "stale-after-in-place-move")
    d = math.hypot(x1 - x2, y1 - y2)
    cls = ["centre-moved-in-place-then-asked-again"] if c.get("then") else []
    if c.get("die"):
        cls.append("a-die-was-built-before")
        if min(c["die"]) >= 300 * R and mpmath.mpf(1e-5) * R * R < ref < mpmath.mpf(1e-3) * R * R:
            cls.append("shallow-overlap-on-a-large-die")
    near = False
    for t, name in ((r1 + r2, "ext-tangent"), (abs(r1 - r2), "int-tangent")):
        if t > 0 and abs(d - t) <= 8 * math.ulp(t):
            near = True
            cls.append(name)
    if r1 == r2:
        cls.append("equal-radii")
    if d > 0 and abs(d * d - abs(r1 * r1 - r2 * r2)) <= 4 * math.ulp(d * d):
        cls.append("chord-through-centre")
    if d in (r1, r2) and r1 != r2:
        cls.append("distance-equals-a-radius")
    if 0 < d and d * d < 1e-300:
        cls.append("distance-squared-underflows")
    if d == 0:
        cls.append("concentric")
    elif 0 < ref < small:
        cls.append("crossing")
    elif ref == 0:
        cls.append("apart")
    else:
        cls.append("nested")
    return dict(nt=near or r1 == r2, cls=cls)


_i = st.integers


@st.composite
def discs_s(draw):
    def radius():
        if draw(st.booleans()):
            return draw(_i(1, 60)) / 10
        return 10.0 ** draw(st.floats(-3, 3, allow_nan=False))

    r1 = radius()
    r2 = r1 if draw(_i(0, 3)) == 0 else radius()
    ck = draw(_i(0, 2))
    if ck == 0:
        x1, y1 = 0.0, 0.0
    elif ck == 1:
        x1, y1 = draw(_i(-500, 500)) / 10, draw(_i(-500, 500)) / 10
    else:
        x1 = draw(st.floats(-1e4, 1e4, allow_nan=False))
        y1 = draw(st.floats(-1e4, 1e4, allow_nan=False))
    kind = draw(st.sampled_from(["ext", "ext", "int", "int", "zero", "inside", "cross", "far", "rand", "pyth", "tiny", "d=r", "d=r", "shallow"]))
    if kind == "pyth":
        # the common chord passes exactly through one of the centres: d^2 == |r1^2 - r2^2| in floating point
        a, b, c = draw(st.sampled_from([(5, 3, 4), (5, 4, 3), (13, 12, 5), (13, 5, 12), (17, 8, 15), (25, 7, 24), (10, 6, 8)]))
        sc = draw(st.sampled_from([1.0, 0.5, 2.0, 0.25, 0.125, 4.0]))
        r1, r2 = a * sc, b * sc
        if draw(st.booleans()):
            r1, r2 = r2, r1
    if kind == "ext":
        D = r1 + r2
    elif kind == "int":
        D = abs(r1 - r2)
    elif kind == "zero":
        D = 0.0
    elif kind == "inside":
        D = abs(r1 - r2) * draw(st.floats(0, 1, allow_nan=False))
    elif kind == "cross":
        D = abs(r1 - r2) + (r1 + r2 - abs(r1 - r2)) * draw(st.floats(0, 1, allow_nan=False))
    elif kind == "far":
        D = (r1 + r2) * draw(st.floats(1, 50, allow_nan=False))
    elif kind == "pyth":
        D = c * sc
    elif kind == "d=r":
        # the centre of one disc lies exactly on the boundary of the other (ties between the distance and a radius)
        D = r1 if draw(st.booleans()) else r2
    elif kind == "shallow":
        # the discs overlap by a small fraction of their size: the lens is small but well above the accuracy stated
        t = 10.0 ** -draw(st.floats(2, 4, allow_nan=False))
        D = (r1 + r2) * (1 - t) if draw(_i(0, 3)) else abs(r1 - r2) * (1 + t)
    elif kind == "tiny":
        # almost coincident centres: distances whose square is far below the radii's ulp, down to the subnormal range
        if draw(st.booleans()):
            D = 10.0 ** -draw(st.floats(5, 320, allow_nan=False))
        else:
            D = math.sqrt(5e-324 * draw(_i(1, 1 << draw(_i(1, 40)))))  # the square of the distance is a subnormal number (or just above)
        if draw(st.booleans()):
            r2 = r1
    else:
        D = draw(st.floats(0, 2000, allow_nan=False))
    dk = draw(_i(0, 4))
    if dk == 0:
        ux, uy = 1.0, 0.0
    elif dk == 1:
        ux, uy = 0.0, -1.0
    elif dk == 2:
        ux, uy = 0.6, 0.8
    elif dk == 3:
        ux, uy = -0.8, 0.6
    else:
        ang = draw(st.floats(0, 6.283185307179586, allow_nan=False))
        ux, uy = math.cos(ang), math.sin(ang)
    x2, y2 = x1 + D * ux, y1 + D * uy
    ulps = draw(_i(-4, 4)) if kind != "pyth" or draw(st.booleans()) else 0
    for _ in range(abs(ulps)):
        if abs(ux) >= abs(uy):
            x2 = math.nextafter(x2, math.inf if ulps > 0 else -math.inf)
        else:
            y2 = math.nextafter(y2, math.inf if ulps > 0 else -math.inf)
    case = dict(d=[x1, y1, r1, x2, y2, r2])
    if draw(st.booleans()):
        big = max(r1, r2, abs(x1), abs(y1), abs(x2), abs(y2)) * 10.0 ** draw(st.sampled_from([0.5, 1, 2, 3, 3, 4]))
        case["die"] = [big, big * draw(st.sampled_from([1.0, 1.0, 0.5, 2.0]))]
    if draw(_i(0, 3)) == 0:
        f = draw(st.sampled_from([0.0, 0.5, 1.5, 3.0]))
        case["then"] = [x1 + f * (r1 + r2) * ux, y1 + f * (r1 + r2) * uy]
    return case


def run_total(c):
    """the function as its caller uses it: total_intersection_area(die) = sum over ordered pairs of modules of the overlap of their discs"""
    from frame.netlist.netlist import Netlist
    from tools.force.fruchterman_reingold import total_intersection_area
    Rectangle.undefine_epsilon()
    try:
        mods = {"M%d" % k: {"area": float(a), "center": [float(x), float(y)]} for k, (a, x, y) in enumerate(c["mods"])}
        nl = Netlist({"Modules": mods, "Nets": []})
        die = Die({"width": float(c["W"]), "height": float(c["H"])}, nl)
        try:
            got = total_intersection_area(die)
        except Exception as e:
            raise Violation("total_intersection_area raised %s: %s on modules (area, x, y) %s" % (type(e).__name__, e, c["mods"]), "raised")
        discs = [(float(m.center.x), float(m.center.y), math.sqrt(m.area() / math.pi)) for m in nl.modules]
        ref = mpmath.mpf(0)
        for i, (x1, y1, r1) in enumerate(discs):
            for j, (x2, y2, r2) in enumerate(discs):
                if i != j:
                    ref += lens(x1, y1, r1, x2, y2, r2)
        n, R = len(discs), max(d[2] for d in discs)
        if not math.isfinite(got) or abs(mpmath.mpf(got) - ref) > n * (n - 1) * mpmath.mpf(1e-5) * R * R:
            raise Violation("total_intersection_area = %r on modules (area, x, y) %s; the exact lens areas of the ordered pairs sum to %s" % (
                got, c["mods"], mpmath.nstr(ref, 17)), "total-inaccurate")
        cls = []
        if any(a[1:] == b[1:] and a[0] == b[0] for i, a in enumerate(c["mods"]) for b in c["mods"][i + 1:]):
            cls.append("equal-modules-on-one-point")
        if any(a[1:] == b[1:] and a[0] != b[0] for i, a in enumerate(c["mods"]) for b in c["mods"][i + 1:]):
            cls.append("unequal-modules-on-one-point")
        return dict(nt=ref > 0, cls=cls)
    finally:
        Rectangle.undefine_epsilon()


@st.composite
def total_s(draw):
    W, H = draw(_i(4, 40)), draw(_i(4, 40))
    mods = []
    for k in range(draw(_i(2, 4))):
        a = draw(st.sampled_from([1, 2, 4, 4, 0.5, 9, 12.25, 3.14]))
        x, y = draw(_i(0, 2 * W)) / 2, draw(_i(0, 2 * H)) / 2
        w = draw(_i(0, 5))
        if mods and w == 0:
            a, x, y = mods[-1]  # an identical twin on the same point
        elif mods and w == 1:
            x, y = mods[-1][1], mods[-1][2]  # same point, other area
        elif mods and w == 2:
            # tangent to the previous one along x
            x = mods[-1][1] + math.sqrt(mods[-1][0] / math.pi) + math.sqrt(a / math.pi)
            y = mods[-1][2]
        mods.append([a, x, y])
    return dict(W=W, H=H, mods=mods)


def subchecks():
    return [Sub("discs", run_discs, strategy=discs_s(), n_quick=60000, n_thorough=1500000, fuzz_thorough=30000,
                required=("ext-tangent", "int-tangent", "equal-radii", "concentric", "crossing", "apart", "nested", "chord-through-centre", "distance-squared-underflows", "distance-equals-a-radius", "centre-moved-in-place-then-asked-again",
                          "a-die-was-built-before", "shallow-overlap-on-a-large-die")),
            Sub("total", run_total, strategy=total_s(), n_quick=6000, n_thorough=100000,
                required=("equal-modules-on-one-point", "unequal-modules-on-one-point"))]
