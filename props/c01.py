"""C01  Die decomposition is an exact tiling of the die (frame/die/die.py)."""
import os
import tempfile
from fractions import Fraction as Fr

from hypothesis import strategies as st

from frame.die.die import Die
from frame.netlist.netlist import Netlist
from gen import design as D
from gen import lattice as L
from vfw import exact as X
from vfw.core import Sub, Violation

PROP = "C01"
RULE = ("valid: lattice die (unit dyadic or decimal such as 0.1/0.3/0.0025/2.5, sides 1-12 units, a quarter of them 20-120 units; the attached netlist may also hold soft modules down to 1e-6 unit^2, which fix the process-wide precision) with 0-8 disjoint blockage / "
        "specialised regions and 0-3 fixed netlist modules packed by construction (touching each other and the border), given as "
        "parsed tree, YAML text (flow or block), file, or 'WxH'. Oracle in Fractions: reported regions inside the die, pairwise "
        "disjoint, areas sum to the die, every Hanan cell of the exact description covered exactly once, inputs reported unchanged "
        "with their tag; the same after floorplanning_rectangles(), after a refinement request the die refuses, after later changes "
        "of the netlist and for a second die of the same description object. invalid: the same plus one region (or fixed rectangle) overlapping another by >= one lattice cell or "
        "sticking out of the die by >= one unit, or overlapping an input by 0.001-0.03 unit (thin-overlap); Die(...) must raise. non-trivial = (>= 2 input regions and >= 2 ground regions) or "
        "a rejected description; distinct = distinct case.")
ASSUMPTIONS = [
    "length tolerance 1e-9 x die size, area tolerance 1e-9 x die area for the float results; input regions are compared with ==",
    "any exception raised by Die(...) on an invalid description counts as rejection",
    "thin overlaps (0.001-0.03 unit) are generated for lattice units >= 0.1 only, where the overlapping area is at least 80 times the tolerance of the die's own area check",
    "input regions are compared as multisets per list (blockages, specialised, fixed): the statement does not fix an order",
]

_i = st.integers


@st.composite
def die_in(draw, invalid=False):
    big = draw(_i(0, 3)) == 0
    c = draw(D.die_case(max_side=120, min_side=20)) if big else draw(D.die_case())
    # other modules of the attached netlist (they do not occupy the die, but they are part of the description: the
    # first design loaded fixes the process-wide precision): soft modules, possibly much smaller than the die
    c["extra"] = []
    if draw(_i(0, 2)) == 0:
        for k in range(draw(_i(1, 2))):
            c["extra"].append([draw(st.sampled_from(["1", "0.09", "0.0001", "0.25", "1e-06", "40"])), draw(_i(0, 2 * c["W"])), draw(_i(0, 2 * c["H"]))])
    # movable hard modules with rectangles anywhere on the die (over blockages, regions, fixed rectangles, each other): they are
    # part of the netlist but not of the die
    c["movable"] = []
    if draw(_i(0, 2)) == 0:
        for k in range(draw(_i(1, 2))):
            c["movable"].append(draw(L.int_rect(c["W"], c["H"], max(1, c["W"] // 2), max(1, c["H"] // 2))))
    has_regions = bool(c["regions"])
    forms = ["tree", "flow", "block", "file"] + ([] if has_regions else ["wxh", "wxh"])
    c["form"] = draw(st.sampled_from(forms))
    c["flat"] = draw(st.booleans())
    c["mut"] = None
    # a refinement request the library refuses (aspect ratio <= sqrt 2, or no region asked for), made before the regions are read
    c["alloc_refined"] = (not invalid) and draw(_i(0, 3)) == 0
    c["refused"] = None if invalid else draw(st.sampled_from([None, None, [1.2, 4], [3, 0], [1.0, 1], [1.415, 3], [2, -1]]))
    if invalid:
        W, H = c["W"], c["H"]
        kind = draw(st.sampled_from(["overlap", "overlap", "outside", "thin-overlap"]))
        if kind == "thin-overlap" and Fr(c["unit"]) < Fr(1, 10):
            kind = "overlap"  # (on tiny lattices a 0.001-unit overlap comes within two orders of magnitude of the die's own tolerance)
        if kind == "thin-overlap":
            # the same die on a lattice 1000 times finer, plus a region that overlaps an input by a few thousandths of a unit
            F = 1000
            c["unit"] = X.dec(Fr(c["unit"]) / F)
            W, H = c["W"], c["H"] = c["W"] * F, c["H"] * F
            c["regions"] = [[v * F for v in r[:4]] + [r[4]] for r in c["regions"]]
            c["fixed"] = [[[v * F for v in r] for r in rl] for rl in c["fixed"]]
            c["movable"] = [[v * F for v in r] for r in c.get("movable") or []]
            c["extra"] = [[a, x * F, y * F] for a, x, y in c.get("extra") or []]
        inputs = [r[:4] for r in c["regions"]] + [r for rl in c["fixed"] for r in rl]
        as_fixed = draw(_i(0, 3)) == 0
        if kind == "thin-overlap":
            if not inputs:
                base = [v * F for v in draw(L.int_rect(W // F, H // F))]
                c["regions"].append(base + [draw(st.sampled_from(D.TAGS))])
                inputs = [base]
            R = inputs[draw(_i(0, len(inputs) - 1))]
            d = draw(st.sampled_from([1, 3, 10, 30]))
            if draw(st.booleans()):
                new = [R[2] - d, R[3] - d, R[2], R[3]]  # a d x d corner of R
            elif draw(st.booleans()):
                new = [R[0], R[1], R[0] + d, R[3]]  # a strip of width d along R's left edge
            else:
                new = [R[0], R[3] - d, R[2], R[3]]  # a strip of height d along R's top edge
        elif kind == "overlap":
            if not inputs:
                base = draw(L.int_rect(W, H))
                c["regions"].append(base + [draw(st.sampled_from(D.TAGS))])
                inputs = [base]
            R = inputs[draw(_i(0, len(inputs) - 1))]
            # a cell of R that the new rectangle must contain
            cx = draw(_i(R[0], R[2] - 1))
            cy = draw(_i(R[1], R[3] - 1))
            x0 = draw(_i(0, cx))
            x1 = draw(_i(cx + 1, W))
            y0 = draw(_i(0, cy))
            y1 = draw(_i(cy + 1, H))
            new = [x0, y0, x1, y1]
        else:
            s = draw(_i(1, 3))
            side = draw(st.sampled_from(["right", "top", "left", "bottom"]))
            a = draw(_i(0, max(0, (H if side in ("right", "left") else W) - 1)))
            b = a + draw(_i(1, 3))
            d = draw(_i(0, 3))
            if side == "right":
                new = [max(0, W - d), a, W + s, min(b, H)]
            elif side == "top":
                new = [a, max(0, H - d), min(b, W), H + s]
            elif side == "left":
                new = [-s, a, s + d, min(b, H)]  # centre stays >= 0 so that only the geometry is wrong
            else:
                new = [a, -s, min(b, W), s + d]
            if new[2] <= new[0]:
                new[2] = new[0] + 1
            if new[3] <= new[1]:
                new[3] = new[1] + 1
        if as_fixed:
            c["fixed"].append([new])
        else:
            pos = draw(_i(0, len(c["regions"])))
            c["regions"].insert(pos, new + [draw(st.sampled_from(D.TAGS))])
            if c["form"] == "wxh":
                c["form"] = "tree"
        c["mut"] = kind
        if c["regions"] and c["form"] == "wxh":
            c["form"] = "tree"
    return c


def build(c, keep=None):
    netlist = None
    if c["fixed"] or c.get("extra") or c.get("movable"):
        u = Fr(c["unit"])
        extra = {"S%d" % k: {"area": float(Fr(a) * u * u), "center": [X.num(x * u / 2), X.num(y * u / 2)]}
                 for k, (a, x, y) in enumerate(c.get("extra") or [])}
        for k, r in enumerate(c.get("movable") or []):
            extra["H%d" % k] = {"hard": True, "rectangles": [D.rect_entry(r, c["unit"])]}
        netlist = Netlist(D.fixed_netlist_tree(c, extra))
    form = c["form"]
    u = Fr(c["unit"])
    if form == "tree":
        src = D.die_tree(c)
    elif form == "flow":
        src = D.die_text(c, True)
    elif form == "block":
        src = D.die_text(c, False)
    elif form == "wxh":
        src = "%sx%s" % (X.dec(c["W"] * u), X.dec(c["H"] * u))
    else:
        from gen import files
        path = files.write(c["W"] + 3 * c["H"], D.die_text(c, False))
        try:
            return Die(path, netlist) if netlist is not None else Die(path)
        finally:
            os.unlink(path)
    if keep is not None:
        keep.update(src=src, netlist=netlist)
    return Die(src, netlist) if netlist is not None else Die(src)


def fl(r):
    return X.of_frame(r)


def run_valid(c):
    u = Fr(c["unit"])
    W, H = c["W"] * u, c["H"] * u
    keep = {}
    try:
        die = build(c, keep)
    except Exception as e:
        raise Violation("valid die rejected: %s: %s\n%s%s" % (type(e).__name__, e, D.die_text(c),
                        ("fixed: %s" % c["fixed"]) if c["fixed"] else ""), "valid-rejected")
    scale = max(W, H)
    tol = scale / 10 ** 9
    atol = W * H / 10 ** 9
    whole = (Fr(0), Fr(0), W, H)
    if Fr(die.width) != W and abs(Fr(die.width) - W) > tol or abs(Fr(die.height) - H) > tol:
        raise Violation("die size reported as %r x %r" % (die.width, die.height), "size")
    groups = [("ground", die.ground_regions), ("specialized", die.specialized_regions), ("blockage", die.blockages),
              ("fixed", die.fixed_regions)]
    allr = [(g, r, fl(r)) for g, rs in groups for r in rs]
    for g, r, e in allr:
        if not X.inside(e, whole, tol):
            raise Violation("%s region %s lies outside the die %s x %s" % (g, r, W, H), "outside")
    for i in range(len(allr)):
        for j in range(i + 1, len(allr)):
            if X.inter_area(allr[i][2], allr[j][2]) > atol:
                raise Violation("%s region %s overlaps %s region %s\n%s" % (allr[i][0], allr[i][1], allr[j][0], allr[j][1],
                                                                              D.die_text(c)), "overlap")
    total = sum((X.area(e) for _, _, e in allr), Fr(0))
    if abs(total - W * H) > atol:
        raise Violation("areas of the reported regions sum to %s, die area is %s\n%s" % (float(total), float(W * H), D.die_text(c)),
                        "area-sum")
    # every Hanan cell of the exact description is covered exactly once
    ein = D.exact_regions(c) + D.exact_fixed(c)
    xs, ys = X.hanan(ein + [whole])
    for i in range(len(xs) - 1):
        for j in range(len(ys) - 1):
            p = ((xs[i] + xs[i + 1]) / 2, (ys[j] + ys[j + 1]) / 2)
            n = X.cover_count([e for _, _, e in allr], p)
            if n != 1:
                raise Violation("point %s of the die is covered by %d reported regions\n%s" % (
                    (float(p[0]), float(p[1])), n, D.die_text(c)), "cover-%s" % ("hole" if n == 0 else "multiple"))
    # ground regions avoid the inputs and carry the ground tag
    for r in die.ground_regions:
        if r.region != "_":
            raise Violation("ground region tagged %r" % r.region, "ground-tag")
        for e in ein:
            if X.inter_area(fl(r), e) > atol:
                raise Violation("ground region %s overlaps input region %s" % (r, e), "ground-overlaps-input")
    # inputs reported unchanged, with their tag
    def key(r):
        return (r.center.x, r.center.y, r.shape.w, r.shape.h, r.region)
    exp_block = sorted(tuple(D.rect_entry(r, c["unit"], r[4])) for r in c["regions"] if r[4] == "#")
    exp_spec = sorted(tuple(D.rect_entry(r, c["unit"], r[4])) for r in c["regions"] if r[4] != "#")
    exp_fixed = sorted(tuple(D.rect_entry(r, c["unit"], "_")) for rl in c["fixed"] for r in rl)
    for name, got, exp in (("blockages", die.blockages, exp_block), ("specialised regions", die.specialized_regions, exp_spec),
                           ("fixed regions", die.fixed_regions, exp_fixed)):
        if sorted(key(r) for r in got) != exp:
            raise Violation("%s reported as %s, the description says %s" % (name, sorted(key(r) for r in got), exp), "inputs-changed")
    cls = [c["form"]]
    # the other access path to the same regions: floorplanning_rectangles() = (specialised + ground, fixed); asking for it (twice)
    # leaves what the die reports as it was
    state0 = {name: sorted(key(r) for r in getattr(die, name)) for name in ("ground_regions", "specialized_regions", "blockages", "fixed_regions")}
    for rep in (1, 2):
        try:
            refinable, fixed_rs = die.floorplanning_rectangles()
        except Exception as e:
            raise Violation("floorplanning_rectangles() raised %s: %s" % (type(e).__name__, e), "floorplanning-raised")
        if sorted(key(r) for r in refinable) != sorted(state0["specialized_regions"] + state0["ground_regions"]) or \
                sorted(key(r) for r in fixed_rs) != state0["fixed_regions"]:
            raise Violation("floorplanning_rectangles() (call %d) returns %d refinable and %d fixed rectangles; the die reports %d specialised + %d ground and %d fixed" % (
                rep, len(refinable), len(fixed_rs), len(state0["specialized_regions"]), len(state0["ground_regions"]), len(state0["fixed_regions"])),
                "floorplanning-differs")
        now = {name: sorted(key(r) for r in getattr(die, name)) for name in state0}
        if now != state0:
            raise Violation("after floorplanning_rectangles() the die reports other regions: %s were %s" % (
                {k: len(v) for k, v in now.items()}, {k: len(v) for k, v in state0.items()}), "getter-alters-the-die")
    # the die is what was built: changing the netlist afterwards (a movable module gets fixed, a fixed one is released) does not
    # change what the existing die reports
    if keep.get("netlist") is not None:
        nl0 = keep["netlist"]
        flipped = []
        for m in nl0.modules:
            if m.is_hard and not m.is_terminal and m.num_rectangles > 0:
                m.is_fixed = not m.is_fixed
                flipped.append(m)
        if flipped:
            now = {name: sorted(key(r) for r in getattr(die, name)) for name in state0}
            for m in flipped:
                m.is_fixed = not m.is_fixed
            if now != state0:
                raise Violation("after fixing / releasing modules of the netlist the existing die reports other regions: %s were %s" % (
                    {k: len(v) for k, v in now.items()}, {k: len(v) for k, v in state0.items()}), "die-follows-later-netlist-changes")
            cls.append("netlist-changed-after-the-die-was-built")
    if c["form"] == "tree":
        # the description is the caller's object: it is still the same description afterwards and is accepted again
        if keep["src"] != D.die_tree(c):
            raise Violation("Die(description) altered the caller's description: it is now %r, it was %r" % (keep["src"], D.die_tree(c)),
                            "description-altered")
        try:
            die2 = Die(keep["src"], keep["netlist"]) if keep["netlist"] is not None else Die(keep["src"])
        except Exception as e:
            raise Violation("the same (valid) description object is rejected when used a second time: %s: %s" % (type(e).__name__, e),
                            "valid-rejected-second-use")
        for name in ("ground_regions", "specialized_regions", "blockages", "fixed_regions"):
            if sorted(key(r) for r in getattr(die2, name)) != sorted(key(r) for r in getattr(die, name)):
                raise Violation("a second Die of the same description object reports different %s" % name, "second-use-differs")
        cls.append("description-used-twice")
    # the die's rectangles are handed to an allocation (as create_initial_allocation does) which is then refined: the cells are cut,
    # the die still reports the regions it reported
    if c.get("alloc_refined"):
        from frame.allocation.allocation import Allocation
        refinable, fixed_rs = die.floorplanning_rectangles()
        if refinable:
            try:
                al = Allocation([(r, {"X": 0.5}, 0) for r in refinable] + [(r, {"F%d" % k: 1.0}, 0) for k, r in enumerate(fixed_rs)])
                al.refine(0.75, 2).uniform_refinement_depth()
            except Exception as e:
                raise Violation("an allocation over the die's rectangles could not be built and refined: %s: %s\n%s" % (type(e).__name__, e, D.die_text(c)),
                                "allocation-over-the-die-raised")
            now = {name: sorted(key(r) for r in getattr(die, name)) for name in state0}
            if now != state0:
                raise Violation("after an allocation over the die's rectangles was refined the die reports other regions: %s were %s\n%s" % (
                    {k: len(v) for k, v in now.items()}, {k: len(v) for k, v in state0.items()}, D.die_text(c)), "allocation-refinement-alters-the-die")
            cls.append("allocation-over-the-die-refined")
    # a request the die refuses leaves it as it was
    if c.get("refused"):
        try:
            die.split_refinable_regions(*c["refused"])
        except Exception:
            now = {name: sorted(key(r) for r in getattr(die, name)) for name in state0}
            if now != state0:
                raise Violation("after the refused request split_refinable_regions%s the die reports other regions: %s were %s\n%s" % (
                    tuple(c["refused"]), {k: len(v) for k, v in now.items()}, {k: len(v) for k, v in state0.items()}, D.die_text(c)),
                    "refused-request-alters-the-die")
            cls.append("refused-refinement-request")
    nin = len(ein)
    touching = any(e[0] == 0 or e[1] == 0 or e[2] == W or e[3] == H for e in ein)
    if touching:
        cls.append("touches-border")
    if any(a is not b and (a[0] == b[2] or a[2] == b[0] or a[1] == b[3] or a[3] == b[1]) and
           a[0] <= b[2] and b[0] <= a[2] and a[1] <= b[3] and b[1] <= a[3] for a in ein for b in ein):
        cls.append("regions-touch")
    if c["fixed"]:
        cls.append("with-fixed")
    if c.get("flat") and len(c["regions"]) == 1:
        cls.append("single-region-without-list")
    if c.get("movable"):
        cls.append("netlist-with-movable-hard-modules")
    if c.get("extra"):
        cls.append("netlist-with-soft-modules")
        if any(Fr(a) < Fr(1, 100) for a, _, _ in c["extra"]):
            cls.append("tiny-module-in-netlist")
    if max(c["W"], c["H"]) >= 40:
        cls.append("large-die")
    # float-rounding class: some border of an input is not reproduced exactly by centre +- size/2 in floats
    rnd = False
    for r in [r[:4] for r in c["regions"]] + [r for rl in c["fixed"] for r in rl]:
        cx, cy, w, h = L.csr(r, c["unit"])
        ex = L.to_fr(r, c["unit"])
        fx0, fx1 = float(cx) - float(w) / 2, float(cx) + float(w) / 2
        fy0, fy1 = float(cy) - float(h) / 2, float(cy) + float(h) / 2
        if (fx0, fy0, fx1, fy1) != tuple(float(v) for v in ex):
            rnd = True
    if rnd:
        cls.append("float-rounding")
    if Fr(c["unit"]).denominator & (Fr(c["unit"]).denominator - 1):
        cls.append("decimal-unit")
    return dict(nt=nin >= 2 and len(die.ground_regions) >= 2, cls=cls)


def run_invalid(c):
    try:
        die = build(c)
    except Exception as e:
        return dict(nt=True, cls=["rejected-" + type(e).__name__, "mut-" + c["mut"]])
    raise Violation("invalid die accepted (%s): %s%s -> ground %s" % (
        c["mut"], D.die_text(c), ("fixed: %s " % c["fixed"]) if c["fixed"] else "", die.ground_regions), "invalid-accepted")


def subchecks():
    return [
        Sub("valid", run_valid, strategy=die_in(False), n_quick=12000, n_thorough=300000, fuzz_thorough=6000,
            required=("tree", "flow", "block", "file", "wxh", "touches-border", "regions-touch", "with-fixed",
                      "float-rounding", "decimal-unit", "single-region-without-list", "netlist-with-soft-modules",
                      "tiny-module-in-netlist", "large-die", "description-used-twice", "netlist-with-movable-hard-modules", "netlist-changed-after-the-die-was-built", "refused-refinement-request",
                      "allocation-over-the-die-refined")),
        Sub("invalid", run_invalid, strategy=die_in(True), n_quick=6000, n_thorough=120000, fuzz_thorough=3000,
            required=("mut-overlap", "mut-outside", "mut-thin-overlap")),
    ]
