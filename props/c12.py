"""C12  Refinement decisions are consistent, exact and terminate (must_be_refined / refine / uniform_refinement_depth / griddify)."""
from fractions import Fraction as Fr

from hypothesis import strategies as st

from gen import alloc as A
from props.c02 import fl, predicted_cells, resolve_threshold
from vfw import exact as X
from vfw.core import Sub, Violation

PROP = "C12"
RULE = ("allocations as in C02 (incl. cells with an empty occupancy map, layouts with different numbers of x- and y-boundaries, "
        "slivers, fixed cells).  loop: 1-3 repetitions of 'if must_be_refined(t): refine(t, levels)' with thresholds 0, 1, values "
        "equal to a ratio, others; at every repetition must_be_refined(t) == (refine(t) has more cells), and refine is compared "
        "with a reference refinement written from the statement (which cells are split, 2^levels equal pieces reachable by "
        "halving the longer side, depth + levels, same map, all other cells untouched).  uniform: every non-fixed cell ends at "
        "the former maximum depth as one of 2^(max-d) equal pieces of its parent.  grid: after griddify no non-fixed cell is "
        "crossed by a boundary line of another cell unless the thinner piece is <= 1% of the other side of the original cell. "
        "non-trivial = loop: >= 1 cell split and >= 1 not split; uniform: some cell split; grid: >= 1 cut applied and "
        "#x-boundaries != #y-boundaries.  distinct = distinct case.")
ASSUMPTIONS = [
    "at w == h either halving direction is accepted",
    "uniform refinement: fixed cells are not asserted (C02 / C12 / docstring conflict, DESIGN 4/C02)",
    "grid: a crossing is judged on lattice coordinates (clear of rounding by a quarter unit); the sliver exception is evaluated "
    "against the other side of the ORIGINAL cell, which is the largest value any order of cutting could have used (sound for any correct implementation)",
    "relative tolerance 1e-9 on float geometry",
]
_i = st.integers


def reachable_shapes(w, h, levels, tol):
    """shapes obtainable by halving the longer side `levels` times; at w == h (up to tol) either side may be halved"""
    shapes = {(w, h)}
    for _ in range(levels):
        nxt = set()
        for (a, b) in shapes:
            if a >= b - tol:
                nxt.add((a / 2, b))
            if b >= a - tol:
                nxt.add((a, b / 2))
        shapes = nxt
    return shapes


def check_equal_pieces(parent, kids, levels, tol, atol, what, sigp):
    """kids: list of (rect, depth); parent: (rect, region, fixed, map, depth).  The pieces must be 2^levels cells of equal
    area, each of a shape reachable by halving the longer side, tiling the parent, at depth + levels."""
    e0, d0 = parent[0], parent[4]
    if len(kids) != 2 ** levels:
        raise Violation("%s: cell %s was cut into %d pieces instead of %d" % (what, fl(e0), len(kids), 2 ** levels), sigp + "-count")
    w, h = e0[2] - e0[0], e0[3] - e0[1]
    shapes = reachable_shapes(w, h, levels, tol)
    for k, d in kids:
        sh = (k[2] - k[0], k[3] - k[1])
        if not any(abs(sh[0] - a) <= tol and abs(sh[1] - b) <= tol for a, b in shapes):
            raise Violation("%s: cell %s (w=%s, h=%s) has a piece of %s x %s; halving the longer side %d times gives %s" % (
                what, fl(e0), float(w), float(h), float(sh[0]), float(sh[1]), levels, sorted((float(a), float(b)) for a, b in shapes)),
                sigp + "-shape")
        if d != d0 + levels:
            raise Violation("%s: a piece of cell %s (depth %d) has depth %d instead of %d" % (what, fl(e0), d0, d, d0 + levels),
                            sigp + "-depth")
        if not X.inside(k, e0, tol):
            raise Violation("%s: piece %s outside its cell %s" % (what, fl(k), fl(e0)), sigp + "-outside")
    ok, pr = X.pairwise_disjoint([k for k, _ in kids], atol)
    if not ok:
        raise Violation("%s: pieces of %s overlap" % (what, fl(e0)), sigp + "-overlap")


def children_of(prev, new, what):
    kids = [[] for _ in prev]
    for (e, region, fixed, amap, depth) in new:
        c = ((e[0] + e[2]) / 2, (e[1] + e[3]) / 2)
        homes = [i for i, p in enumerate(prev) if p[0][0] < c[0] < p[0][2] and p[0][1] < c[1] < p[0][3]]
        if len(homes) != 1:
            raise Violation("%s: cell %s lies in %d cells of the previous allocation" % (what, fl(e), len(homes)), "cell-outside")
        if amap != prev[homes[0]][3]:
            raise Violation("%s: cell %s does not carry the map of the cell it was cut from" % (what, fl(e)), "ratios-changed")
        kids[homes[0]].append((e, depth))
    return kids


def run_loop(c):
    alloc = A.build(c)
    snap = A.snapshot(alloc)
    scale = max(max(e[2], e[3]) for e, *_ in snap)
    tol, atol = scale / 10 ** 9, scale * scale / 10 ** 9
    levels = int(c["levels"])
    some_split = some_kept = False
    cls = []
    for rep in range(int(c["reps"])):
        op = resolve_threshold(["refine", c["t"], levels], snap)
        t = float(op[1])
        if predicted_cells(snap, op) > 800:
            break
        what = "repetition %d, threshold %r, levels %d" % (rep + 1, t, levels)
        # the same object is asked about other thresholds first: every answer is the one for the threshold asked about
        for t2 in ((1.0, 0.0, t / 2) if rep % 2 == 0 else (0.0, (1 + t) / 2, 1.0)):
            want2 = any(len(p[3]) > 0 and all(Fr(v) <= Fr(t2) for v in p[3].values()) for p in snap)
            try:
                got2 = alloc.must_be_refined(t2)
            except Exception as e:
                raise Violation("%s: must_be_refined(%r) raised %s: %s" % (what, t2, type(e).__name__, e), "must-raised")
            if got2 != want2:
                raise Violation("%s: must_be_refined(%r) = %r on maps %s" % (what, t2, got2, [m for *_, m, _ in snap]), "must-vs-definition")
        try:
            need = alloc.must_be_refined(t)
        except Exception as e:
            raise Violation("%s: must_be_refined raised %s: %s" % (what, type(e).__name__, e), "must-raised")
        try:
            new_alloc = alloc.refine(t) if levels == 1 and rep % 2 == 0 else alloc.refine(t, levels)  # (default: one level)
        except Exception as e:
            raise Violation("%s: refine raised %s: %s" % (what, type(e).__name__, e), "refine-raised")
        new = A.snapshot(new_alloc)
        changed = len(new) > len(snap)
        if bool(need) != changed or not isinstance(need, bool):
            raise Violation("%s: must_be_refined = %r but refine %s the allocation (%d -> %d cells); maps: %s" % (
                what, need, "changes" if changed else "does not change", len(snap), len(new), [m for *_, m, _ in snap]),
                "must-vs-refine")
        # reference: split precisely the non-empty cells in which no module exceeds the threshold
        kids = children_of(snap, new, what)
        for p, ks in zip(snap, kids):
            want_split = len(p[3]) > 0 and all(Fr(v) <= Fr(t) for v in p[3].values())
            if want_split:
                some_split = True
                check_equal_pieces(p, ks, levels, tol, atol, what, "refine")
            else:
                some_kept = True
                if len(ks) != 1 or any(abs(a - b) > tol for a, b in zip(ks[0][0], p[0])) or ks[0][1] != p[4]:
                    raise Violation("%s: cell %s (map %s, depth %d) must stay as it is but became %s" % (
                        what, fl(p[0]), p[3], p[4], [(fl(k), d) for k, d in ks]), "refine-split-wrong-cell")
        if any(len(p[3]) == 0 for p in snap):
            cls.append("empty-map")
        if any(0 < abs((p[0][2] - p[0][0]) - (p[0][3] - p[0][1])) <= Fr(2, 1000) * (p[0][2] - p[0][0]) and len(p[3]) > 0
               and all(Fr(v) <= Fr(t) for v in p[3].values()) for p in snap):
            cls.append("almost-square-cell-split")
        if any(Fr(v) == Fr(t) for p in snap for v in p[3].values()):
            cls.append("ratio==threshold")
        alloc, snap = new_alloc, new
        if not changed:
            cls.append("stable")
            break
    if int(c["reps"]) > 1:
        cls.append("loop")
    if not any(cell["a"] for cell in c["cells"]):
        cls.append("nothing-allocated")
    return dict(nt=some_split and some_kept, cls=cls)


def run_uniform(c):
    alloc = A.build(c)
    snap = A.snapshot(alloc)
    if predicted_cells(snap, ["uniform"]) > 800:
        return dict(nt=False, cls=["skipped-too-many-cells"])
    scale = max(max(e[2], e[3]) for e, *_ in snap)
    tol, atol = scale / 10 ** 9, scale * scale / 10 ** 9
    mx = max(d for *_, d in snap)
    try:
        if alloc.max_refinement_depth() != mx:
            raise Violation("max_refinement_depth() = %r, the deepest cell has %d" % (alloc.max_refinement_depth(), mx), "max-depth")
        new_alloc = alloc.uniform_refinement_depth()
    except Violation:
        raise
    except Exception as e:
        raise Violation("uniform_refinement_depth raised %s: %s" % (type(e).__name__, e), "uniform-raised")
    new = A.snapshot(new_alloc)
    kids = children_of(snap, new, "uniform_refinement_depth")
    split = False
    for p, ks in zip(snap, kids):
        if p[2]:
            continue  # fixed: not asserted
        check_equal_pieces(p, ks, mx - p[4], tol, atol, "uniform_refinement_depth (max depth %d)" % mx, "uniform")
        split = split or mx > p[4]
    for (e, region, fixed, amap, depth) in new:
        if not fixed and depth != mx:
            raise Violation("uniform_refinement_depth: cell %s ends at depth %d, the former maximum is %d" % (fl(e), depth, mx), "uniform-depth")
    return dict(nt=split, cls=["uniform-split"] if split else ["already-uniform"])


def run_grid(c):
    alloc = A.build(c)
    snap = A.snapshot(alloc)
    if predicted_cells(snap, ["griddify"]) > 800:
        return dict(nt=False, cls=["skipped-too-many-cells"])
    u = Fr(c["unit"])
    try:
        new_alloc = alloc.griddify()
    except Exception as e:
        raise Violation("griddify raised %s: %s on cells %s" % (type(e).__name__, e, [x["r"] for x in c["cells"]]), "griddify-raised")
    new = A.snapshot(new_alloc)
    # boundary lines of all cells (exact lattice values from the case)
    xs = sorted({Fr(v) * u for x in c["cells"] for v in (x["r"][0], x["r"][2])})
    ys = sorted({Fr(v) * u for x in c["cells"] for v in (x["r"][1], x["r"][3])})
    margin = u / 4
    cuts = 0
    sliver_kept = 0
    for (e, region, fixed, amap, depth) in new:
        cx, cy = (e[0] + e[2]) / 2, (e[1] + e[3]) / 2
        anc = [p for p in snap if p[0][0] < cx < p[0][2] and p[0][1] < cy < p[0][3]]
        if len(anc) != 1:
            raise Violation("griddify: cell %s lies in %d original cells" % (fl(e), len(anc)), "cell-outside")
        a = anc[0][0]
        aw, ah = a[2] - a[0], a[3] - a[1]
        if (e[2] - e[0]) < aw - margin or (e[3] - e[1]) < ah - margin:
            cuts += 1
        if fixed:
            continue
        for axis, lines, lo, hi, other in ((0, xs, e[0], e[2], ah), (1, ys, e[1], e[3], aw)):
            for b in lines:
                if lo + margin < b < hi - margin:
                    thin = min(b - lo, hi - b)
                    if thin > Fr(1, 100) * other * (1 + Fr(1, 10 ** 9)):
                        raise Violation("griddify: cell %s is still crossed by the boundary line %s = %s of another cell; the "
                                        "thinner piece %s is not a sliver (1%% of the other side %s is %s); original cells %s" % (
                                            fl(e), "xy"[axis], float(b), float(thin), float(other), float(other) / 100,
                                            [x["r"] for x in c["cells"]]), "griddify-crossed")
                    sliver_kept += 1
    cls = []
    if len(xs) != len(ys):
        cls.append("x-boundaries!=y-boundaries")
    if len(ys) > len(xs):
        cls.append("more-y-than-x")
    if sliver_kept:
        cls.append("sliver-exception-used")
    if cuts:
        cls.append("cut-applied")
    return dict(nt=cuts > 0 and len(xs) != len(ys), cls=cls)


@st.composite
def loop_s(draw):
    c = draw(A.alloc_case())
    tk = draw(_i(0, 5))
    c["t"] = 0 if tk == 0 else 1 if tk == 1 else ["ratio", draw(_i(0, 9))] if tk <= 3 else draw(st.sampled_from(
        [0.2, 0.5, 0.55, 0.7, 0.95, 1.0, 0.0, 0.3]))
    c["levels"] = draw(st.sampled_from([1, 1, 2, 3]))
    c["reps"] = draw(_i(1, 3))
    if draw(_i(0, 11)) == 0:
        # nothing is allocated yet (the allocation create_initial_allocation starts from): no cell is ever to be refined, at any threshold
        for cell in c["cells"]:
            cell["a"] = {}
            cell["fixed"] = False
        c["t"] = draw(st.sampled_from([1, 1.0, 0, 0.5, 1.5]))
        if c["form"] == "text":
            c["form"] = "tree"  # (a text without any 'key: value' is taken for a file name by the reader)
    return c


def subchecks():
    return [
        Sub("loop", run_loop, strategy=loop_s(), n_quick=4000, n_thorough=100000, fuzz_thorough=2000,
            required=("empty-map", "ratio==threshold", "stable", "loop", "almost-square-cell-split", "nothing-allocated")),
        Sub("uniform", run_uniform, strategy=A.alloc_case(), n_quick=2000, n_thorough=50000, fuzz_thorough=1000, required=("uniform-split",)),
        Sub("grid", run_grid, strategy=A.alloc_case(), n_quick=4000, n_thorough=100000, fuzz_thorough=2000,
            required=("x-boundaries!=y-boundaries", "more-y-than-x", "sliver-exception-used", "cut-applied")),
    ]
