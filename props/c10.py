"""C10  Global floorplanning returns a feasible allocation and rigid hard modules (tools/glbfloor/optimization.py)."""
import contextlib
import io
import math
from fractions import Fraction as Fr

from hypothesis import strategies as st

from frame.die.die import Die
from frame.netlist.netlist import Netlist
from gen import design as D
from gen import lattice as L
from vfw import exact as X
from vfw.core import Sub, Violation

PROP = "C10"
RULE = ("a small lattice die (sides 4-10 units, up to 3 blockages, up to 2 fixed modules), refined by split_refinable_regions "
        "(r in {1.5, 2, 3}, n <= 12) or initial_grid (<= 3x3), with 2-5 movable modules: soft (area + centre), hard with 1-2 "
        "rectangles, flippable hard; total module area <= 60% of the free area; nets of arity 2-4 with weights; threshold in "
        "{0.5, 0.7, 0.9, 0.95, 1.0}, alpha in {0, 0.3, 0.7, 1}, max_iter in {1, 1, 1, 2, 3}.  The real glbfloor(...) runs with the "
        "local APOPT binary.  An exception (solver failure, module without any cell) is 'did not return' and is only counted.  "
        "When it returns: cells pairwise disjoint and inside the die, ratios in [0, 1], per-cell sum <= 1 + 1e-4, module centres "
        "finite and inside the die, fixed modules' rectangles identical and their cells owned >= 1 - 1e-6 with strangers <= 1e-4, "
        "movable hard modules (one rectangle, L, or a staircase that is no single-trunk orthogon) keep every rectangle's size and the offsets between rectangles up to a mirror per axis.  "
        "extract: extract_solution on synthetic solutions in which hard modules are translated and flippable ones mirrored; the "
        "resulting rectangles must be where the solution says.  "
        "non-trivial = returned and (a cell shared by two modules or a hard module moved); distinct = distinct case.")
ASSUMPTIONS = [
    "the property is conditional on returning: instances on which APOPT fails say nothing; the return rate is reported and must stay above 15% of the generated instances",
    "solver tolerance: 1e-4 on the cell capacity, 1e-6 on centres and ownership; geometry 1e-9 relative",
    "mirroring is accepted for any hard module (the statement does not tie it to the flip attribute)",
]
_i = st.integers


def build(c):
    dc = c["die"]
    unit = dc["unit"]
    u = Fr(unit)
    mods = {}
    for k, rl in enumerate(dc["fixed"]):
        mods["F%d" % k] = {"fixed": True, "rectangles": [D.rect_entry(r, unit) for r in rl]}
    for m in c["modules"]:
        if m["kind"] == "soft":
            mods[m["name"]] = {"area": X.num(m["area"] * u * u), "center": [X.num(m["c"][0] * u / 2), X.num(m["c"][1] * u / 2)]}
        else:
            d = {"hard": True, "rectangles": [D.rect_entry(r, unit) for r in m["rects"]]}
            if m["kind"] == "flip":
                d["flip"] = True
            mods[m["name"]] = d
    nets = [list(e["m"]) + ([e["w"]] if e["w"] is not None else []) for e in c["nets"]]
    nl = Netlist({"Modules": mods, "Nets": nets})
    die = Die(D.die_tree(dc), nl)
    ref = c["refine"]
    if not die.floorplanning_rectangles()[0]:
        raise NoRefinableRegion()  # blockages and fixed modules cover the whole die: nothing to floorplan on (outside the domain)
    if ref[0] == "split":
        die.split_refinable_regions(float(ref[1]), int(ref[2]))
    else:
        die.initial_grid(int(ref[1]), int(ref[2]))
    return die


class NoRefinableRegion(Exception):
    pass


def run_glb(c):
    from tools.glbfloor.optimization import glbfloor
    try:
        die = build(c)
    except NoRefinableRegion:
        return dict(nt=False, cls=["die-without-refinable-region"])
    except Exception as e:
        raise RuntimeError("generator produced a rejected design: %s: %s\n%s" % (type(e).__name__, e, c))
    nl = die.netlist
    W, H = die.width, die.height
    size = max(W, H)
    fixed0 = {m.name: [(r.center.x, r.center.y, r.shape.w, r.shape.h) for r in m.rectangles] for m in nl.modules if m.is_fixed}
    hard0 = {m.name: [(r.center.x, r.center.y, r.shape.w, r.shape.h) for r in m.rectangles] for m in nl.modules if m.is_hard and not m.is_fixed}
    what = "glbfloor(threshold=%r, alpha=%r, max_iter=%r)" % (c["threshold"], c["alpha"], c["max_iter"])
    try:
        with contextlib.redirect_stdout(io.StringIO()), contextlib.redirect_stderr(io.StringIO()):
            die2, alloc = glbfloor(die, float(c["threshold"]), float(c["alpha"]), max_iter=int(c["max_iter"]), verbose=False)
    except BaseException as e:
        if isinstance(e, (KeyboardInterrupt, SystemExit, MemoryError)) or type(e).__name__ in ("CaseTimeout",):
            raise
        return dict(nt=False, cls=["did-not-return", "did-not-return:" + type(e).__name__] + (["over-full-did-not-return"] if c.get("overfull") else []) + (["stacked-did-not-return"] if c.get("stacked") else [])
                    + (["soft-module-on-top-of-a-fixed-block-did-not-return"] if c.get("on_top") else []))
    whole = (Fr(0), Fr(0), Fr(W), Fr(H))
    tol = Fr(size) / 10 ** 9
    cells = [(X.of_frame(a.rect), a) for a in alloc.allocations]
    for e, a in cells:
        if not X.inside(e, whole, tol):
            raise Violation("%s: cell %s lies outside the %r x %r die" % (what, a.rect, W, H), "cell-outside")
    for i in range(len(cells)):
        for j in range(i + 1, len(cells)):
            if X.inter_area(cells[i][0], cells[j][0]) > tol * Fr(size):
                raise Violation("%s: cells %s and %s overlap" % (what, cells[i][1].rect, cells[j][1].rect), "cells-overlap")
    shared = False
    for e, a in cells:
        s = 0.0
        for m, v in a.alloc.items():
            if not (0 <= v <= 1) or not math.isfinite(v):
                raise Violation("%s: ratio of %s in cell %s is %r" % (what, m, a.rect, v), "ratio-range")
            s += v
        if s > 1 + 1e-4:
            raise Violation("%s: cell %s is occupied %r > 100%%: %s" % (what, a.rect, s, a.alloc), "cell-over-occupied")
        if sum(1 for v in a.alloc.values() if v > 1e-3) >= 2:
            shared = True
    for m in die2.netlist.modules:
        if m.center is None:
            raise Violation("%s: module %s has no centre" % (what, m.name), "centre-missing")
        if not (math.isfinite(m.center.x) and math.isfinite(m.center.y)) or not (
                -1e-6 * size <= m.center.x <= W + 1e-6 * size and -1e-6 * size <= m.center.y <= H + 1e-6 * size):
            raise Violation("%s: centre of %s is %s, outside the %r x %r die" % (what, m.name, m.center, W, H), "centre-outside")
    # the netlist's flat list of rectangles is another way to the same shapes
    flat = sorted((r.center.x, r.center.y, r.shape.w, r.shape.h) for r in die2.netlist.rectangles)
    own = sorted((r.center.x, r.center.y, r.shape.w, r.shape.h) for m in die2.netlist.modules for r in m.rectangles)
    if flat != own:
        raise Violation("%s: Netlist.rectangles and the modules' own rectangles disagree in the returned netlist: %s vs %s" % (
            what, [x for x in flat if x not in own][:3], [x for x in own if x not in flat][:3]), "rectangle-lists-disagree")
    moved = False
    split_fixed = False
    for m in die2.netlist.modules:
        now = [(r.center.x, r.center.y, r.shape.w, r.shape.h) for r in m.rectangles]
        if m.name in fixed0:
            if now != fixed0[m.name]:
                raise Violation("%s: fixed module %s changed its rectangles: %s -> %s" % (what, m.name, fixed0[m.name], now), "fixed-moved")
            for r in now:
                er = X.rect_cs(*r)
                # the module's cells: the cells lying on its rectangle (one cell, or - when even fully owned cells were
                # refined, i.e. threshold 1 - several) tile the rectangle and each is wholly and only the module's
                atol_c = float(X.area(er)) * 1e-9
                touching = [(e, a) for e, a in cells if X.inter_area(e, er) > atol_c]
                if not touching or any(not X.inside(e, er, tol) for e, a in touching) or \
                        abs(float(sum(X.area(e) for e, a in touching)) - float(X.area(er))) > 1e-6 * float(X.area(er)):
                    raise Violation("%s: rectangle %s of fixed module %s is not tiled by cells of the allocation (cells on it: %s)" % (
                        what, r, m.name, [tuple(float(v) for v in e) for e, a in touching]), "fixed-cell-missing")
                for e, a in touching:
                    al = a.alloc
                    if al.get(m.name, 0) < 1 - 1e-6 or any(v > 1e-4 for k, v in al.items() if k != m.name):
                        raise Violation("%s: cell %s of fixed module %s has allocation %s" % (what, a.rect, m.name, al), "fixed-cell-shared")
                if len(touching) > 1:
                    split_fixed = True
        elif m.name in hard0:
            old = hard0[m.name]
            if len(now) != len(old) or any(a[2:] != b[2:] for a, b in zip(old, now)):
                raise Violation("%s: hard module %s was reshaped: %s -> %s" % (what, m.name, old, now), "hard-reshaped")
            sx = sy = None
            for k in range(1, len(old)):
                dx0, dy0 = old[k][0] - old[0][0], old[k][1] - old[0][1]
                dx1, dy1 = now[k][0] - now[0][0], now[k][1] - now[0][1]
                for d0, d1, ax in ((dx0, dx1, "x"), (dy0, dy1, "y")):
                    if abs(abs(d0) - abs(d1)) > 1e-9 * size:
                        raise Violation("%s: hard module %s was deformed: offsets %s -> %s" % (what, m.name, old, now), "hard-reshaped")
                    if abs(d0) > 1e-9 * size:
                        sgn = 1 if d0 * d1 > 0 else -1
                        prev = sx if ax == "x" else sy
                        if prev is not None and prev != sgn:
                            raise Violation("%s: hard module %s: rectangles mirrored inconsistently: %s -> %s" % (what, m.name, old, now), "hard-reshaped")
                        if ax == "x":
                            sx = sgn
                        else:
                            sy = sgn
            if any(abs(a[0] - b[0]) > 1e-6 * size or abs(a[1] - b[1]) > 1e-6 * size for a, b in zip(old, now)):
                moved = True
    cls = ["returned", "max_iter=%d" % c["max_iter"], "refine-" + c["refine"][0]]
    if c.get("pocket"):
        cls.append("isolated-pocket")
    if c.get("on_top"):
        cls.append("soft-module-on-top-of-a-fixed-block")
    if split_fixed:
        cls.append("fixed-cells-refined")  # (threshold 1: even fully owned cells are split between two optimisations)
    kinds = {m["kind"] for m in c["modules"]}
    cls += ["kind-" + k for k in kinds]
    if any(m["kind"] == "hard" and len(m["rects"]) == 2 and m["rects"][1][0] == m["rects"][0][0] + 1 and m["rects"][1][2] == m["rects"][0][2] + 1
           for m in c["modules"]):
        cls.append("hard-module-that-is-no-single-trunk-orthogon")
    if c["die"]["fixed"]:
        cls.append("with-fixed")
    if shared:
        cls.append("shared-cell")
    if moved:
        cls.append("hard-moved")
    return dict(nt=shared or moved, cls=cls)


@st.composite
def case_s(draw):
    scen = draw(_i(0, 7))  # 0: a die with fixed modules whose cells are refined between two optimisations (threshold 1)
    # scenario 4: soft modules stacked on one centre on a grid of >= 9 cells (some cell is wholly covered by several modules)
    if scen == 6:
        # a pocket: a blockage strip of full height cuts a part of the die off (a cell that touches no other cell); one module nearly
        # fills it, another one straddles the strip and is pulled into the pocket by a net
        a, p_, Hh = draw(_i(18, 22)), draw(_i(12, 16)), draw(_i(13, 17))
        dc = dict(unit="0.2", W=a + 1 + p_, H=Hh, regions=[[a, 0, a + 1, Hh, "#"]], fixed=[[[0, 0, 5, 5]]])
        share = draw(st.sampled_from([82, 87, 90]))
        mods = [dict(name="M0", kind="soft", area=p_ * Hh * share // 100, c=[2 * (a + 1) + p_, Hh]),
                dict(name="M1", kind="soft", area=draw(_i(150, 220)), c=[2 * a + 1, Hh]),
                dict(name="M2", kind="soft", area=draw(_i(50, 90)), c=[15, 20])]
        nets = [dict(m=["M0", "M1"], w=draw(st.sampled_from([None, 2]))), dict(m=["M1", "M2"], w=None), dict(m=["M2", "F0"], w=None)]
        return dict(die=dc, refine=["split", 2.0, draw(st.sampled_from([3, 4, 5]))], modules=mods, nets=nets, pocket=True,
                    threshold=draw(st.sampled_from([0.8, 0.85])), alpha=draw(st.sampled_from([0.9, 1])), max_iter=draw(st.sampled_from([2, 3])))
    if scen == 7:
        # a big soft module sits right on top of a small fixed block, on a die refined finer than the module's square: the fixed cell and
        # all the cells around it lie deep inside the module (whatever glbfloor RETURNS for it is judged like any result)
        Wd = draw(_i(10, 14))
        f0 = Wd // 2 - 1
        dc = dict(unit=draw(st.sampled_from(["1", "0.5", "2"])), W=Wd, H=Wd, regions=[], fixed=[[[f0, f0, f0 + 2, f0 + 2]]])
        side = draw(_i(6, Wd - 3))
        mods = [dict(name="M0", kind="soft", area=side * side, c=[2 * f0 + 2 + draw(_i(-1, 1)), 2 * f0 + 2 + draw(_i(-1, 1))])]
        if draw(st.booleans()):
            mods.append(dict(name="M1", kind="soft", area=draw(_i(1, 4)), c=[2, 2]))
        nets = [dict(m=["M0", "F0"], w=draw(st.sampled_from([None, 2])))] + ([dict(m=["M1", "M0"], w=None)] if len(mods) > 1 else [])
        return dict(die=dc, refine=["split", 2.0, draw(st.sampled_from([16, 24, 32]))], modules=mods, nets=nets, on_top=True,
                    threshold=draw(st.sampled_from([0.9, 0.8, 0.7])), alpha=draw(st.sampled_from([0.3, 0.7, 1])), max_iter=draw(st.sampled_from([1, 1, 2])))
    empty = scen == 4 or (scen != 0 and draw(_i(0, 2)) == 0)
    dc = draw(D.die_case(max_regions=0 if empty else 3, max_fixed=2, min_side=4, max_side=10, allow_fixed=not empty,
                         force_fixed=scen in (0, 1), units=["1", "1", "0.5", "2", "0.1", "2.5", "10"]))
    dc["regions"] = [r[:4] + ["#"] for r in dc["regions"]]
    W, H = dc["W"], dc["H"]
    used = sum((r[2] - r[0]) * (r[3] - r[1]) for r in dc["regions"]) + sum((r[2] - r[0]) * (r[3] - r[1]) for rl in dc["fixed"] for r in rl)
    free = W * H - used
    if scen == 4:
        ref = ["grid", draw(_i(3, 4)), draw(_i(3, 4))]
    elif empty and draw(st.booleans()):
        ref = ["grid", draw(_i(1, 3)), draw(_i(2, 3))]
    else:
        ref = ["split", draw(st.sampled_from([1.5, 2, 3])), draw(st.sampled_from([1, 2, 4, 6, 9, 12]))]
    n = draw(_i(2, 5))
    # scenario 5: more module area than free area (the optimiser cannot succeed; whatever glbfloor then RETURNS is judged like any result)
    budget = max(2, int(free * 0.6)) if scen != 5 else max(4, int(free * draw(st.sampled_from([1.1, 1.3, 2.0]))))
    mods = []
    for i in range(n):
        kind = draw(st.sampled_from(["soft", "soft", "soft", "hard", "flip"])) if scen not in (4, 5) else "soft"
        share = max(1, budget // n)
        if kind == "soft":
            mods.append(dict(name="M%d" % i, kind="soft", area=draw(_i(1, share)) if scen != 5 else share, c=[draw(_i(1, 2 * W - 1)), draw(_i(1, 2 * H - 1))]))
        else:
            w = draw(_i(1, max(1, min(3, W // 3))))
            h = draw(_i(1, max(1, min(3, H // 3))))
            x0 = draw(_i(0, W - w))
            y0 = draw(_i(0, H - h))
            rects = [[x0, y0, x0 + w, y0 + h]]
            if kind == "hard" and x0 + w + 1 <= W and y0 + h + 1 <= H and draw(_i(0, 2)) > 0:
                # a staircase: the second rectangle sits on top, shifted to the right so that it overhangs (no rectangle can be
                # the trunk of the other one: the module is not a single-trunk orthogon, it is rigid all the same)
                rects.append([x0 + 1, y0 + h, x0 + w + 1, y0 + h + 1])
            elif draw(st.booleans()):  # a second rectangle on top or to the right, inside the die
                if y0 + h + 1 <= H and draw(st.booleans()):
                    w2 = draw(_i(1, w))
                    rects.append([x0, y0 + h, x0 + w2, y0 + h + 1])
                elif x0 + w + 1 <= W:
                    h2 = draw(_i(1, h))
                    rects.append([x0 + w, y0, x0 + w + 1, y0 + h2])
            mods.append(dict(name="H%d" % i, kind=kind, rects=rects))
    if scen == 4:
        # a square die with g x g cells; two modules of 2 x 2 cells each on the same corner block, a small third one elsewhere
        g = ref[1] = ref[2] = draw(st.sampled_from([3, 4, 4]))
        cell = draw(st.sampled_from([1, 2]))
        dc["W"] = dc["H"] = W = H = g * cell
        cx = draw(st.sampled_from([2 * cell, 2 * (g - 1) * cell]))
        cy = draw(st.sampled_from([2 * cell, 2 * (g - 1) * cell]))
        mods = [dict(name="M0", kind="soft", area=4 * cell * cell, c=[cx, cy]), dict(name="M1", kind="soft", area=4 * cell * cell, c=[cx, cy])]
        if draw(st.booleans()):
            mods.append(dict(name="M2", kind="soft", area=cell * cell, c=[2 * W - cx, 2 * H - cy]))
    names = [m["name"] for m in mods] + ["F%d" % k for k in range(len(dc["fixed"]))]
    nets = []
    for _ in range(draw(_i(0, 4))):
        ar = draw(st.sampled_from([2, 2, 2, 3, 4]))
        mem = [names[draw(_i(0, len(names) - 1))] for _ in range(ar)]
        if len(set(mem)) >= 2:
            nets.append(dict(m=mem, w=draw(st.sampled_from([None, 1, 2, 0.5]))))
    thr, mit = draw(st.sampled_from([0.5, 0.7, 0.9, 0.95, 1.0])), draw(st.sampled_from([1, 1, 1, 2, 3]))
    if scen == 0:
        thr, mit = 1.0, max(mit, 2)
    return dict(die=dc, refine=ref, modules=mods, nets=nets, overfull=scen == 5, stacked=scen == 4, threshold=thr, alpha=draw(st.sampled_from([0, 0.3, 0.7, 1])), max_iter=mit)


class _FakeModel:
    """what extract_solution reads from a solved model: plain numbers"""
    def __init__(self):
        self.x, self.y, self.d, self.a = {}, {}, {}, {}


def run_extract(c):
    """extract_solution on a synthetic solution: hard modules translated (and mirrored when flippable)"""
    from frame.allocation.allocation import create_initial_allocation
    from tools.glbfloor.optimization import extract_solution
    try:
        die = build(c)
    except NoRefinableRegion:
        return dict(nt=False, cls=["die-without-refinable-region"])
    nl = die.netlist
    try:
        alloc0 = create_initial_allocation(die)
    except Exception:
        return dict(nt=False, cls=["no-initial-allocation"])
    cells = [a.rect for a in alloc0.allocations]
    W, H = die.width, die.height
    u = float(Fr(c["die"]["unit"]))
    model = _FakeModel()
    moves = {m["name"]: m for m in c["moves"]}
    expected = {}
    for m in nl.modules:
        model.a[m.name] = {}
        for k, a in enumerate(alloc0.allocations):
            model.a[m.name][k] = float(a.alloc.get(m.name, 0.0))
        if m.is_fixed:
            model.x[m.name], model.y[m.name] = m.center.x, m.center.y
            continue
        mv = moves[m.name]
        nx, ny = mv["to"][0] * u / 2, mv["to"][1] * u / 2
        model.x[m.name], model.y[m.name] = nx, ny
        if m.is_hard:
            cx, cy = m.center.x, m.center.y
            sx = -1 if (m.flip and mv["fx"]) else 1
            sy = -1 if (m.flip and mv["fy"]) else 1
            exp = []
            for r, rect in enumerate(m.rectangles):
                px, py = nx + sx * (rect.center.x - cx), ny + sy * (rect.center.y - cy)
                model.x["%s_%d" % (m.name, r)], model.y["%s_%d" % (m.name, r)] = px, py
                model.d["%s_%d" % (m.name, r)] = 0.0
                exp.append((px, py, rect.shape.w, rect.shape.h))
            expected[m.name] = (exp, sx, sy)
        else:
            model.d[m.name] = 0.0
    try:
        die2, alloc, disp = extract_solution(model, die, cells, float(c["threshold"]))
    except Exception as e:
        return dict(nt=False, cls=["extract-did-not-return:" + type(e).__name__])  # e.g. no cell above the threshold
    size = max(W, H)
    cls = []
    for m in die2.netlist.modules:
        if m.is_fixed:
            continue
        if abs(m.center.x - model.x[m.name]) > 1e-9 * size or abs(m.center.y - model.y[m.name]) > 1e-9 * size:
            raise Violation("extract_solution: centre of %s is %s, the solution says (%r, %r)" % (m.name, m.center, model.x[m.name], model.y[m.name]),
                            "extract-centre")
        if m.name in expected:
            exp, sx, sy = expected[m.name]
            got = [(r.center.x, r.center.y, r.shape.w, r.shape.h) for r in m.rectangles]
            for g, e in zip(got, exp):
                if g[2:] != e[2:] or abs(g[0] - e[0]) > 1e-9 * size or abs(g[1] - e[1]) > 1e-9 * size:
                    raise Violation("extract_solution: hard module %s (flip=%s) should be at %s (solution mirrored x:%s y:%s), its rectangles are %s" % (
                        m.name, m.flip, exp, sx < 0, sy < 0, got), "extract-hard-placement")
            if (sx < 0 or sy < 0) and len(exp) > 1:
                cls.append("mirrored")
            if len(exp) > 1:
                cls.append("two-rectangles")
    return dict(nt="mirrored" in cls or "two-rectangles" in cls, cls=cls)


@st.composite
def extract_s(draw):
    c = draw(case_s())
    W, H = c["die"]["W"], c["die"]["H"]
    c["moves"] = [dict(name=m["name"], to=[draw(_i(2, 2 * W - 2)), draw(_i(2, 2 * H - 2))], fx=draw(st.booleans()), fy=draw(st.booleans()))
                  for m in c["modules"]]
    return c


def subchecks():
    return [Sub("instances", run_glb, strategy=case_s(), n_quick=400, n_thorough=8000, shrink_quick=False, shrink_thorough=True,
                required=("returned", "kind-soft", "kind-hard", "kind-flip", "with-fixed", "shared-cell", "hard-module-that-is-no-single-trunk-orthogon"), case_timeout=300),
            Sub("extract", run_extract, strategy=extract_s(), n_quick=1500, n_thorough=30000, required=("mirrored", "two-rectangles"))]
