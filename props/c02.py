"""C02  Refining an allocation conserves tiling, module area and centroid (Allocation.refine / uniform_refinement_depth / griddify)."""
from fractions import Fraction as Fr

from hypothesis import strategies as st

from gen import alloc as A
from vfw import exact as X
from vfw.core import Sub, Violation

PROP = "C02"
RULE = ("a history: a generated allocation (guillotine layouts with dropped leaves in the positive quadrant, small lattices and "
        "large ones with slivers, empty maps, ratios incl. 0 and 1, several modules per cell, sums above 1, recorded depths 0-3, "
        "fixed cells built through the descriptor API; dyadic and decimal units) followed by 1-4 operations drawn from "
        "refine(threshold, levels) [thresholds 0, 1, values equal to a ratio of the current allocation, others; levels 1-3], "
        "uniform_refinement_depth(), griddify().  After EVERY step: each new cell lies inside exactly one cell of the previous "
        "allocation, carries its region tag and its occupancy map (==); children of one cell are disjoint and sum to its area; "
        "area(m) and center(m) of every module equal those of the ORIGINAL allocation (1e-9); fixed cells are not cut by griddify "
        "nor by refine at thresholds < 1; the operation does not raise.  non-trivial = at least one cell was cut in the history; "
        "distinct = distinct (allocation, operation list).")
ASSUMPTIONS = [
    "a valid allocation = what the constructor accepts; every module appearing in it owns a positive area (the constructor divides by it)",
    "fixed cells being cut by uniform_refinement_depth and by refine(threshold = 1) is NOT asserted: C02, C12 and the functions' docstrings disagree there (DESIGN 4/C02)",
    "histories stop growing at 600 cells",
    "relative tolerance 1e-9 on geometry, areas and centres of the float results",
]
_i = st.integers


def apply_op(alloc, op):
    if op[0] == "refine":
        if int(op[2]) == 1 and int(float(op[1]) * 1000) % 2 == 0:
            return alloc.refine(float(op[1]))  # (the documented default is one level)
        return alloc.refine(float(op[1]), int(op[2]))
    if op[0] == "uniform":
        return alloc.uniform_refinement_depth()
    if op[0] == "griddify":
        return alloc.griddify()
    raise ValueError(op)


def resolve_threshold(op, snap):
    """thresholds may be symbolic: ['ratio', k] = the k-th distinct ratio of the current allocation"""
    if op[0] != "refine":
        return op
    t = op[1]
    if isinstance(t, list):
        vals = sorted({v for _, _, _, m, _ in snap for v in m.values()})
        t = vals[t[1] % len(vals)] if vals else 0.5
    return ["refine", t, op[2]]


def check_step(prev, new, op, scale, what):
    """prev/new: snapshots. returns number of cells that were cut."""
    tol = scale / 10 ** 9
    atol = scale * scale / 10 ** 9
    kids = [[] for _ in prev]
    for (e, region, fixed, amap, depth) in new:
        c = ((e[0] + e[2]) / 2, (e[1] + e[3]) / 2)
        homes = [i for i, p in enumerate(prev) if p[0][0] < c[0] < p[0][2] and p[0][1] < c[1] < p[0][3]]
        if len(homes) != 1:
            raise Violation("%s: cell %s lies in %d cells of the previous allocation" % (what, fl(e), len(homes)), "cell-outside")
        i = homes[0]
        p = prev[i]
        if not X.inside(e, p[0], tol):
            raise Violation("%s: cell %s sticks out of the cell %s it was cut from" % (what, fl(e), fl(p[0])), "cell-outside")
        if region != p[1]:
            raise Violation("%s: cell %s has region %r, its parent %r" % (what, fl(e), region, p[1]), "region-changed")
        if amap != p[3]:
            raise Violation("%s: cell %s has occupancy %s, the cell it was cut from has %s" % (what, fl(e), amap, p[3]), "ratios-changed")
        if fixed != p[2]:
            raise Violation("%s: cell %s fixed=%s, its parent fixed=%s" % (what, fl(e), fixed, p[2]), "fixed-flag-changed")
        kids[i].append((e, depth))
    cut = 0
    for i, p in enumerate(prev):
        ks = kids[i]
        if not ks:
            raise Violation("%s: cell %s of the previous allocation disappeared" % (what, fl(p[0])), "cell-lost")
        ok, pr = X.pairwise_disjoint([k[0] for k in ks], atol)
        if not ok:
            raise Violation("%s: pieces of cell %s overlap: %s" % (what, fl(p[0]), [fl(x) for x in pr]), "pieces-overlap")
        if abs(sum((X.area(k[0]) for k in ks), Fr(0)) - X.area(p[0])) > atol:
            raise Violation("%s: pieces of cell %s have total area %s instead of %s" % (
                what, fl(p[0]), float(sum(X.area(k[0]) for k in ks)), float(X.area(p[0]))), "pieces-area")
        if len(ks) > 1:
            cut += 1
            never = op[0] == "griddify" or (op[0] == "refine" and float(op[1]) < 1)
            if p[2] and never:
                raise Violation("%s: the cell %s of a fixed module was cut into %d pieces" % (what, fl(p[0]), len(ks)), "fixed-cut")
    return cut


def predicted_cells(snap, op):
    """upper bound of the number of cells after the operation (refinement is exponential in depth differences)"""
    if op[0] == "refine":
        return len(snap) * 2 ** int(op[2])
    if op[0] == "uniform":
        mx = max(d for *_, d in snap)
        return sum(2 ** (mx - d) for *_, d in snap)
    xs = {v for e, *_ in snap for v in (e[0], e[2])}
    ys = {v for e, *_ in snap for v in (e[1], e[3])}
    n = 0
    for e, *_ in snap:
        n += (1 + sum(1 for x in xs if e[0] < x < e[2])) * (1 + sum(1 for y in ys if e[1] < y < e[3]))
    return n


def fl(e):
    return tuple(float(v) for v in e)


def check_modules(orig_exp, alloc, what):
    for m, (area, (cx, cy)) in orig_exp.items():
        try:
            a, c = alloc.area(m), alloc.center(m)
        except Exception as e:
            raise Violation("%s: area/center of module %s raised %s: %s" % (what, m, type(e).__name__, e), "module-lost")
        if abs(Fr(a) - area) > area / 10 ** 9:
            raise Violation("%s: area(%s) = %r, originally %s" % (what, m, a, float(area)), "module-area")
        s = max(abs(cx), abs(cy), Fr(1, 10 ** 6))
        if abs(Fr(c.x) - cx) > s / 10 ** 9 or abs(Fr(c.y) - cy) > s / 10 ** 9:
            raise Violation("%s: center(%s) = %s, originally (%s, %s)" % (what, m, c, float(cx), float(cy)), "module-center")


def run_history(c):
    try:
        alloc = A.build(c)
    except Violation:
        raise
    except Exception as e:
        raise RuntimeError("generator produced an allocation the constructor rejects: %s: %s\n%s" % (type(e).__name__, e, c))
    snap0 = A.snapshot(alloc)
    scale = max(max(e[2], e[3]) for e, *_ in snap0)
    orig = A.exp_area_center(snap0)
    check_modules(orig, alloc, "constructor")
    prev = snap0
    total_cut = 0
    cls = []
    kinds = set()
    xs = {v for e, *_ in snap0 for v in (e[0], e[2])}
    ys = {v for e, *_ in snap0 for v in (e[1], e[3])}
    if len(xs) != len(ys):
        cls.append("x-boundaries!=y-boundaries")
    if len(xs) >= len(ys) + 2:
        cls.append("two-more-x-than-y")
    if any(d > 0 for *_, d in snap0):
        cls.append("depth>0-at-start")
    if any(f for _, _, f, _, _ in snap0):
        cls.append("fixed-cells")
    if any(cell.get("hard") for cell in c["cells"]):
        cls.append("fixed-cells-that-are-hard-rectangles")
    for k, op0 in enumerate(c["ops"]):
        if len(prev) > 600:
            break
        op = resolve_threshold(op0, prev)
        if predicted_cells(prev, op) > 800:
            cls.append("operation-skipped-too-many-cells")
            continue
        what = "step %d %s" % (k + 1, op)
        try:
            new_alloc = apply_op(alloc, op)
        except Exception as e:
            raise Violation("%s raised %s: %s" % (what, type(e).__name__, e), "raised-" + op[0])
        new = A.snapshot(new_alloc)
        if A.snapshot(alloc) != prev:
            raise Violation("%s modified the allocation it was applied to" % what, "receiver-mutated")
        cut = check_step(prev, new, op, scale, what)
        check_modules(orig, new_alloc, what)
        total_cut += cut
        if cut:
            kinds.add(op[0])
        alloc, prev = new_alloc, new
    if len(kinds) >= 2:
        cls.append("composition-of-2-operations")
    for k in kinds:
        cls.append("cut-by-" + k)
    return dict(nt=total_cut > 0, cls=cls)


@st.composite
def history_s(draw):
    c = draw(A.alloc_case())
    ops = []
    for _ in range(draw(_i(1, 4))):
        k = draw(_i(0, 5))
        if k <= 2:
            tk = draw(_i(0, 5))
            t = 0 if tk == 0 else 1 if tk == 1 else ["ratio", draw(_i(0, 9))] if tk <= 3 else draw(st.sampled_from(
                [0.2, 0.5, 0.55, 0.7, 0.95, 1.0, 0.0]))
            ops.append(["refine", t, draw(st.sampled_from([1, 1, 2, 3]))])
        elif k == 3:
            ops.append(["uniform"])
        else:
            ops.append(["griddify"])
    c["ops"] = ops
    return c


def subchecks():
    return [Sub("histories", run_history, strategy=history_s(), n_quick=4000, n_thorough=100000, fuzz_thorough=2000,
                required=("x-boundaries!=y-boundaries", "two-more-x-than-y", "depth>0-at-start", "fixed-cells", "fixed-cells-that-are-hard-rectangles",
                          "composition-of-2-operations", "cut-by-refine", "cut-by-uniform", "cut-by-griddify"))]
