"""C19  Every document FRAME produces is accepted back and says the same thing."""
import contextlib
import copy
import io
import os
import tempfile
from fractions import Fraction as Fr

import numpy as np
from hypothesis import strategies as st

from frame.allocation.allocation import Allocation, create_initial_allocation
from frame.die.die import Die
from frame.netlist.netlist import Netlist
from gen import alloc as A
from gen import design as D
from gen import floorplan as FP
from gen import lattice as L
from gen import netlist as G
from gen.stog import stog_rects
from props import c02, c03, c09, c15
from tools.netgen import netgen
from tools.rect import rect_io
from vfw import exact as X
from vfw.core import Sub, Violation

PROP = "C19"
RULE = ("one sub-check per producer, same three-part oracle: the reader accepts the document (through a file, and as text whenever "
        "the text contains ': '), what it reads equals what was written, producing twice gives identical text and leaves the object "
        "unchanged.  die: generated dies before and after split_refinable_regions / initial_grid.  alloc: generated allocations, "
        "results of refinement histories, and create_initial_allocation results.  netgen: EVERY size grid 1..6 x 1..6 (with and "
        "without centres / noise / seed), chain 1..40, ring 2..40, star 2..40, ring-star 3..40, one-net 2..40, h-tree 1..3 (4 "
        "thorough), through the tool's main().  floorset: synthetic FloorSet-Prime dictionaries (polygonal orthogon blocks, "
        "border pins, b2b / p2b nets, placement constraints; density None / 0.5; terminals as terminals or as modules).  rectio: "
        "get_netlist(None, allocation) and solution_to_netlist(netlist, boxes).  legal: Model.get_netlist() of C09 models.  "
        "non-trivial = object with >= 2 regions / cells / modules and, for netlists, >= 1 net with weight != 1.")
ASSUMPTIONS = [
    "documents are compared through the readers' own objects with == on numbers (writers use repr / ruamel), 1e-9 where a producer computes (areas, centroids)",
    "netgen sizes where the topology is undefined (one-net 1, ring 1, ring-star < 3) are outside the domain",
    "FloorSet-Lite single-row blocks are outside 'polygonal blocks'",
]
_i = st.integers


def via_file(text, reader, *extra):
    from gen import files
    path = files.write(len(text), text)  # (file names with blanks, dots, parentheses, sub-directories: all valid names)
    try:
        return reader(path, *extra)
    finally:
        os.unlink(path)


def read_both(text, reader, what, *extra):
    """reads through a file and (when the reader would take it as text) directly; both must be accepted"""
    out = []
    try:
        out.append(via_file(text, reader, *extra))
    except Exception as e:
        raise Violation("%s: the document is rejected by its reader (%s: %s):\n%s" % (what, type(e).__name__, str(e)[:300], text[:1500]),
                        "rejected")
    if ": " in text:
        try:
            out.append(reader(text, *extra))
        except Exception as e:
            raise Violation("%s: the document text is rejected by its reader (%s: %s):\n%s" % (what, type(e).__name__, str(e)[:300], text[:1500]),
                            "rejected")
    return out


# ---- die -------------------------------------------------------------------------------------------------

def die_state(d):
    def rs(lst):
        return [(r.center.x, r.center.y, r.shape.w, r.shape.h, r.region, r.fixed) for r in lst]
    return (d.width, d.height, rs(d.blockages), rs(d.specialized_regions), rs(d.ground_regions), rs(d.fixed_regions))


def written_over(obj, t1, k, what):
    """the writer is given the name of a file that already holds an older, longer document: the file is then the document produced"""
    from gen import files
    path = files.write(k, t1 + "# an older, longer document\n" + t1.replace("\n", "\n# ") + "\n")
    try:
        try:
            obj.write_yaml(path)
        except Exception as e:
            raise Violation("%s: write_yaml(<file name>) raised %s: %s" % (what, type(e).__name__, e), "write-raised")
        got = open(path).read()
        if got != t1:
            raise Violation("%s: written into a file that held a longer document, the file (%d characters) is not the document produced (%d "
                            "characters): it ends with %r" % (what, len(got), len(t1), got[-60:]), "file-is-not-the-document")
    finally:
        os.unlink(path)


def run_die(c):
    nl = Netlist(D.fixed_netlist_tree(c)) if c["fixed"] else None
    die = Die(D.die_tree(c), nl) if nl is not None else Die(D.die_tree(c))
    ref = c["refine"]
    if ref and ref[0] == "split" and die.floorplanning_rectangles()[0]:
        die.split_refinable_regions(float(ref[1]), int(ref[2]))
    elif ref and ref[0] == "grid" and not c["regions"] and not c["fixed"]:
        die.initial_grid(int(ref[1]), int(ref[2]))
    before = die_state(die)
    fail_between = (c["W"] + c["H"]) % 2 == 0
    try:
        t1 = die.write_yaml()
        if fail_between:
            failed_productions()
        t2 = die.write_yaml()
    except Exception as e:
        raise Violation("Die.write_yaml raised %s: %s" % (type(e).__name__, e), "write-raised")
    if die_state(die) != before:
        raise Violation("Die.write_yaml altered the die", "producer-mutates")
    if t1 != t2:
        raise Violation("Die.write_yaml twice gives different documents:\n%s\n---\n%s" % (t1, t2), "not-repeatable")
    if (c["W"] + 2 * c["H"]) % 3 == 0:
        written_over(die, t1, c["W"] + c["H"], "Die.write_yaml")
    nl2 = Netlist(D.fixed_netlist_tree(c)) if c["fixed"] else None
    readers = read_both(t1, (lambda s: Die(s, nl2)) if nl2 is not None else (lambda s: Die(s)), "Die.write_yaml")
    W, H = Fr(die.width), Fr(die.height)
    for d2 in readers:
        a, b = die_state(d2), before
        if (a[0], a[1]) != (b[0], b[1]) or a[2] != b[2] or a[3] != b[3]:
            raise Violation("die written as\n%s\nreads back with size %s x %s, blockages %s, regions %s; written from %s x %s, %s, %s" % (
                t1, a[0], a[1], a[2], a[3], b[0], b[1], b[2], b[3]), "content-differs")
        ga = sum((X.area(X.of_frame(r)) for r in d2.ground_regions), Fr(0))
        gb = sum((X.area(X.of_frame(r)) for r in die.ground_regions), Fr(0))
        if abs(ga - gb) > W * H / 10 ** 9 or not X.same_union([snap(X.of_frame(r), c) for r in d2.ground_regions],
                                                                   [snap(X.of_frame(r), c) for r in die.ground_regions]):
            raise Violation("die written as\n%s\nreads back with ground area %s instead of %s" % (t1, float(ga), float(gb)), "content-differs")
    cls = ["failed-productions-in-between"] if fail_between else []
    if (c["W"] + 2 * c["H"]) % 3 == 0:
        cls.append("written-over-a-longer-file")
    if ref:
        cls.append("refined-" + ref[0])
    if c["fixed"]:
        cls.append("with-fixed")
    if any(r[4] != "#" for r in c["regions"]):
        cls.append("specialised")
    return dict(nt=len(c["regions"]) + len(c["fixed"]) >= 2, cls=cls)


def snap(e, c):
    """snaps an (almost) lattice rectangle to quarter units, to compare unions exactly"""
    u = Fr(c["unit"]) / 64
    return tuple(Fr(round(v / u)) for v in e)


@st.composite
def die_s(draw):
    c = draw(D.die_case(max_regions=5))
    k = draw(_i(0, 3))
    c["refine"] = None
    if k == 1:
        c["refine"] = ["split", draw(st.sampled_from([1.5, 2, 3])), draw(st.sampled_from([1, 2, 4, 7, 12]))]
    elif k == 2:
        c["refine"] = ["grid", draw(_i(1, 4)), draw(_i(2, 4))]
    return c


# ---- allocation -----------------------------------------------------------------------------------------

def alloc_state(al):
    return [((a.rect.center.x, a.rect.center.y, a.rect.shape.w, a.rect.shape.h, a.rect.region), dict(a.alloc), a.depth)
            for a in al.allocations]


def failed_productions():
    """Productions that fail (or not - either is fine): objects holding values the dumper cannot represent, and a file that cannot be
    created.  What is produced AFTERWARDS must not be affected (checked by the caller: the next document equals the previous one)."""
    import numpy as np
    from frame.geometry.geometry import Point, Rectangle, Shape
    out = []
    for what, f in (
            ("allocation with numpy ratios", lambda: Allocation([(Rectangle(center=Point(1.0, 1.0), shape=Shape(2.0, 2.0)), {"Q": np.float64(0.5)}, 0)]).write_yaml()),
            ("die written into a missing directory", lambda: Die("3x2").write_yaml("/nonexistent-directory-of-the-checks/die.yaml")),
            ("netlist with numpy rectangles", lambda: _numpy_netlist().write_yaml())):
        try:
            f()
            out.append(what + ": written")
        except Exception as e:
            out.append(what + ": " + type(e).__name__)
    return out


def _numpy_netlist():
    import numpy as np
    n = Netlist({"Modules": {"Z": {"area": 1.0, "center": [1.0, 1.0]}}, "Nets": []})
    n.assign_rectangles({"Z": [[np.float64(1.0), np.float64(1.0), np.float64(1.0), np.float64(1.0)]]})
    return n


def check_alloc_roundtrip(al, what, fail_between=False):
    before = alloc_state(al)
    try:
        t1 = al.write_yaml()
        if fail_between:
            failed_productions()
        t2 = al.write_yaml()
    except Exception as e:
        raise Violation("%s: Allocation.write_yaml raised %s: %s" % (what, type(e).__name__, e), "write-raised")
    if alloc_state(al) != before:
        raise Violation("%s: Allocation.write_yaml altered the allocation" % what, "producer-mutates")
    if t1 != t2:
        raise Violation("%s: writing twice%s gives different documents:\n%r\n---\n%r" % (
            what, " (with failed productions of other objects in between)" if fail_between else "", t1[:300], t2[:300]), "not-repeatable")
    if len(before) % 3 == 0:
        written_over(al, t1, len(before) + len(t1), what + ": Allocation.write_yaml")
    for al2 in read_both(t1, Allocation, what + ": Allocation.write_yaml"):
        after = alloc_state(al2)
        if after != before:
            diff = next((i for i, (x, y) in enumerate(zip(before, after)) if x != y), None)
            raise Violation("%s: allocation written as\n%s\nreads back differently (%d cells -> %d; first difference at cell %s: %s vs %s)" % (
                what, t1[:800], len(before), len(after), diff, before[diff] if diff is not None else "-",
                after[diff] if diff is not None and diff < len(after) else "-"), "content-differs")
        mods = {m for _, a, _ in before for m in a}
        for m in mods:
            if al2.area(m) != al.area(m) or (al2.center(m).x, al2.center(m).y) != (al.center(m).x, al.center(m).y):
                raise Violation("%s: area/center of %s differ after write + read" % (what, m), "content-differs")
    return t1


def run_alloc(c):
    src = c["src"]
    cls = [src]
    if src == "generated":
        al = A.build(c["alloc"])
        for op0 in c["ops"]:
            snapn = A.snapshot(al)
            op = c02.resolve_threshold(op0, snapn)
            if c02.predicted_cells(snapn, op) > 400:
                break
            al = c02.apply_op(al, op)
            cls.append("after-" + op[0])
        n = len(al.allocations)
    else:
        cc = c["design"]
        nl = Netlist(c03.netlist_tree(cc))
        c03.release(nl, cc)
        die = Die(D.die_tree(cc["die"]), nl)
        ref = cc["refine"]
        if ref and ref[0] == "split" and die.floorplanning_rectangles()[0]:
            die.split_refinable_regions(float(ref[1]), int(ref[2]))
        elif ref and ref[0] == "grid":
            die.initial_grid(int(ref[1]), int(ref[2]))
        try:
            al = create_initial_allocation(die, bool(cc["include_zero"]))
        except Exception:
            return dict(nt=False, cls=["initial-allocation-not-built"])  # C03's business
        n = len(al.allocations)
    fail_between = n % 2 == 0
    check_alloc_roundtrip(al, src, fail_between)
    if fail_between:
        cls.append("failed-productions-in-between")
    if any(a.depth > 0 for a in al.allocations):
        cls.append("depth>0")
    if any(a.rect.region != "_" for a in al.allocations):
        cls.append("cell-in-region")
    return dict(nt=n >= 2, cls=cls)


@st.composite
def alloc_s(draw):
    if draw(_i(0, 3)) == 0:
        return dict(src="initial", design=draw(c03.case_s()))
    ops = []
    for _ in range(draw(_i(0, 3))):
        k = draw(_i(0, 3))
        ops.append(["refine", draw(st.sampled_from([0.3, 0.5, 1, ["ratio", 1]])), draw(_i(1, 2))] if k <= 1 else
                   ["uniform"] if k == 2 else ["griddify"])
    return dict(src="generated", alloc=draw(A.alloc_case()), ops=ops)


# ---- netgen ---------------------------------------------------------------------------------------------

def netgen_cases(tier, shard, nshards):
    cases = []
    for r in range(1, 7):
        for cc in range(1, 7):
            cases.append(["grid", r, cc, None])
            cases.append(["grid", r, cc, [0.0, 1]])
            cases.append(["grid", r, cc, [0.1, 7]])
    for n in range(1, 41):
        cases.append(["chain", n])
    for n in range(2, 41):
        cases.append(["ring", n])
        cases.append(["star", n])
        cases.append(["one-net", n])
    for n in range(3, 41):
        cases.append(["ring-star", n])
    for n in range(1, 4 if tier == "quick" else 5):
        cases.append(["htree", n])
    for i, c in enumerate(cases):
        if i % nshards == shard:
            yield c


def run_netgen(c):
    typ = c[0]
    fd, path = tempfile.mkstemp(suffix=".yaml")
    os.close(fd)
    args = ["-o", path, "--type", typ, "--size"] + [str(v) for v in (c[1:3] if typ == "grid" else c[1:2])]
    if typ == "grid" and c[3] is not None:
        args += ["--add-centers", "--die", "10x7.5", "--add-noise", str(c[3][0]), "--seed", str(c[3][1])]
    texts = []
    try:
        for _ in range(2):
            try:
                netgen.main("netgen", args)
            except BaseException as e:
                raise Violation("netgen %s raised %s: %s" % (args[2:], type(e).__name__, e), "producer-raised")
            with open(path) as f:
                texts.append(f.read())
        if texts[0] != texts[1]:
            raise Violation("netgen %s: two runs give different documents" % args[2:], "not-repeatable")
        try:
            nl = Netlist(path)
        except Exception as e:
            raise Violation("netgen %s: the generated netlist is rejected (%s: %s)\n%s" % (args[2:], type(e).__name__, e, texts[0][:600]), "rejected")
    finally:
        os.unlink(path)
    # the generator's own data structure
    import random
    if typ == "grid":
        if c[3] is not None:
            random.seed(c[3][1])
            from frame.geometry.geometry import Shape
            data = netgen.gen_grid(c[1], c[2], 1, True, c[3][0], Shape(10.0, 7.5))
        else:
            data = netgen.gen_grid(c[1], c[2], 1)
    else:
        data = {"chain": netgen.gen_chain, "ring": netgen.gen_ring, "star": netgen.gen_star, "ring-star": netgen.gen_ring_star,
                "one-net": netgen.gen_one_net, "htree": netgen.gen_htree}[typ](c[1], 1)
    mods = data["Modules"]
    if [m.name for m in nl.modules] != list(mods):
        raise Violation("netgen %s: modules read %s, generated %s" % (args[2:], [m.name for m in nl.modules][:8], list(mods)[:8]), "content-differs")
    for m in nl.modules:
        g = mods[m.name]
        if m.area() != g["area"] or not m.is_soft:
            raise Violation("netgen %s: module %s area %r, generated %r" % (args[2:], m.name, m.area(), g["area"]), "content-differs")
        gc = g.get("center")
        if (m.center is None) != (gc is None) or (gc is not None and (m.center.x, m.center.y) != (gc[0], gc[1])):
            raise Violation("netgen %s: module %s centre %s, generated %s" % (args[2:], m.name, m.center, gc), "content-differs")
    want_nets = []
    for e in data["Nets"]:
        if isinstance(e[-1], str):
            want_nets.append((list(e), 1.0))
        else:
            want_nets.append((list(e[:-1]), float(e[-1])))
    got_nets = [([b.name for b in e.modules], e.weight) for e in nl.edges]
    if got_nets != want_nets:
        raise Violation("netgen %s: nets read %s, generated %s" % (args[2:], got_nets[:5], want_nets[:5]), "content-differs")
    # topology against its definition
    n = len(mods)
    deg = {m: 0 for m in mods}
    pairs = set()
    for mem, w in got_nets:
        for x in mem:
            deg[x] += 1
        if len(mem) == 2:
            pairs.add(frozenset(mem))
    def name(i, j=None):
        return "M%d" % i if j is None else "M%d_%d" % (i, j)
    ok = True
    if typ == "grid":
        r, cc = c[1], c[2]
        exp = {frozenset((name(i, j), name(i, j + 1))) for i in range(r) for j in range(cc - 1)} | \
              {frozenset((name(i, j), name(i + 1, j))) for i in range(r - 1) for j in range(cc)}
        ok = n == r * cc and pairs == exp and len(got_nets) == len(exp)
    elif typ == "chain":
        ok = n == c[1] and pairs == {frozenset((name(i), name(i + 1))) for i in range(n - 1)} and len(got_nets) == n - 1
    elif typ == "ring":
        ok = n == c[1] and pairs == {frozenset((name(i), name((i + 1) % n))) for i in range(n)} and len(got_nets) == n
    elif typ == "star":
        ok = n == c[1] and pairs == {frozenset((name(0), name(i))) for i in range(1, n)} and len(got_nets) == n - 1
    elif typ == "ring-star":
        ring = {frozenset((name(i), name(i + 1))) for i in range(1, n - 1)} | {frozenset((name(n - 1), name(1)))}
        ok = n == c[1] and pairs == ring | {frozenset((name(0), name(i))) for i in range(1, n)} and len(got_nets) == (n - 1) * 2
    elif typ == "one-net":
        ok = n == c[1] and len(got_nets) == 1 and got_nets[0][0] == [name(i) for i in range(n)]
    else:
        L_ = c[1]
        N = 1
        E = 0
        for _ in range(L_ - 1):
            N, E = 3 + 4 * N, 10 + 4 * E
        wc = {}
        for _, w in got_nets:
            wc[w] = wc.get(w, 0) + 1
        ok = n == N and len(got_nets) == E and wc == {float(2 ** j): 10 * 4 ** j for j in range(L_ - 1)}
        # connected
        adj = {m: set() for m in mods}
        for mem, _ in got_nets:
            for x in mem:
                adj[x] |= set(mem)
        seen, todo = {name(0)}, [name(0)]
        while todo:
            for y in adj[todo.pop()]:
                if y not in seen:
                    seen.add(y)
                    todo.append(y)
        ok = ok and len(seen) == n
    if not ok:
        raise Violation("netgen %s: the loaded netlist is not the %s of that size (%d modules, %d nets)" % (args[2:], typ, n, len(got_nets)), "topology")
    return dict(nt=n >= 2 and (typ != "htree" or c[1] >= 2), cls=[typ] + (["with-centres"] if typ == "grid" and c[3] else []))


# ---- FloorSet converter -------------------------------------------------------------------------------------

def floorset_data(c):
    from tools.floorset_parser.floor_set_manager.manager import FloorSetInstance  # noqa: F401 (import check)
    u = float(Fr(c["unit"]))
    W, H = c["W"] * u, c["H"] * u
    polys = []
    for b in c["blocks"]:
        rects = [tuple(Fr(v) for v in r) for r in b["rects"]]
        poly = c15.drop_collinear(c15.trace(rects))
        if b["cw"]:
            poly = poly[::-1]
        poly = poly + [poly[0]]  # FloorSet polygons are closed
        polys.append([(float(x) * u, float(y) * u) for x, y in poly])
    maxv = max(len(p) for p in polys) + c["pad"]
    vb = -np.ones((len(polys), maxv, 2), dtype=np.float64)
    for i, p in enumerate(polys):
        vb[i, :len(p), :] = np.array(p)
    areas = np.array([float(sum((r[2] - r[0]) * (r[3] - r[1]) for r in b["rects"])) * u * u for b in c["blocks"]])
    pc = np.zeros((len(polys), 5))
    for i, b in enumerate(c["blocks"]):
        # FloorSet: column 0 = fixed shape (-> FRAME hard), column 1 = pre-placed (-> FRAME fixed; a pre-placed block
        # cannot move, whether or not its shape is also flagged as fixed)
        pc[i, 0] = 1 if b["kind"] == "hard" or (b["kind"] == "fixed" and b.get("both")) else 0
        pc[i, 1] = 1 if b["kind"] == "fixed" else 0
    pins = np.array([[p[0] * u, p[1] * u] for p in c["pins"]], dtype=np.float64)
    b2b = np.array([[e[0], e[1], e[2]] for e in c["b2b"]], dtype=np.float64).reshape(-1, 3)
    p2b = np.array([[e[0], e[1], e[2]] for e in c["p2b"]], dtype=np.float64).reshape(-1, 3)
    return dict(area_blocks=areas, b2b_connectivity=b2b, p2b_connectivity=p2b, pins_pos=pins, placement_constraints=pc,
                vertex_blocks=vb, metrics=np.array([0.0, float(len(c["pins"])), 0.0])), polys, (W, H)


def run_floorset(c):
    from tools.floorset_parser.floor_set_manager.manager import FloorSetInstance
    data, polys, (W, H) = floorset_data(c)
    what = "FloorSetInstance(density=%s, terminals_as_modules=%s)" % (c["density"], c["tam"])
    try:
        with contextlib.redirect_stdout(io.StringIO()):
            fp = FloorSetInstance(data, c["density"], bool(c["tam"]))
    except Exception as e:
        raise Violation("%s raised %s: %s (pins %s)" % (what, type(e).__name__, str(e)[:200], c["pins"]), "producer-raised")
    mods_before = copy.deepcopy(fp.modules)
    nets_before = [(list(e.modules), e.weight) for e in fp.nets]
    try:
        t1 = fp.write_yaml_FPEF()
        t2 = fp.write_yaml_FPEF()
        d1 = fp.write_yaml_DIEF()
        d2 = fp.write_yaml_DIEF()
    except Exception as e:
        raise Violation("%s: write_yaml_* raised %s: %s" % (what, type(e).__name__, e), "write-raised")
    if [(list(e.modules), e.weight) for e in fp.nets] != nets_before or fp.modules != mods_before:
        raise Violation("%s: write_yaml_FPEF altered the instance: nets %s -> %s" % (what, nets_before[:3], [(list(e.modules), e.weight) for e in fp.nets][:3]),
                        "producer-mutates")
    if t1 != t2 or d1 != d2:
        raise Violation("%s: writing twice gives different documents" % what, "not-repeatable")
    for die in read_both(d1, Die, what + ": write_yaml_DIEF"):
        if (die.width, die.height) != fp.shape or abs(die.width - W) > 1e-9 * W or abs(die.height - H) > 1e-9 * H:
            raise Violation("%s: die reads back as %s x %s, instance says %s, pins span %s x %s" % (what, die.width, die.height, fp.shape, W, H), "content-differs")
    u = float(Fr(c["unit"]))
    for nl in read_both(t1, Netlist, what + ": write_yaml_FPEF"):
        names = [m.name for m in nl.modules]
        if names != list(fp.modules):
            raise Violation("%s: modules read %s, instance has %s" % (what, names, list(fp.modules)), "content-differs")
        raw_names = ["M%d" % i for i in range(len(c["blocks"]))] + ["T%d" % k for k in range(len(c["pins"]))]
        if names != raw_names:
            raise Violation("%s: the document has modules %s, the FloorSet data define %s (other instances were converted "
                            "before in this process)" % (what, names, raw_names), "content-differs-from-data")
        raw_nets = [["M%d" % int(e[0]), "M%d" % int(e[1])] for e in c["b2b"]] + [["T%d" % int(e[0]), "M%d" % int(e[1])] for e in c["p2b"]]
        doc_nets = [[b.name for b in e.modules] for e in nl.edges]
        if doc_nets != raw_nets:
            raise Violation("%s: the document has nets %s, the FloorSet data define %s" % (what, doc_nets[:8], raw_nets[:8]), "content-differs-from-data")
        if not c["density"]:
            raw_w = [float(e[2]) if e[2] > 0 else 1.0 for e in c["b2b"] + c["p2b"]]
            if [e.weight for e in nl.edges] != raw_w:
                raise Violation("%s: net weights %s, the FloorSet data define %s" % (what, [e.weight for e in nl.edges], raw_w), "content-differs-from-data")
        for i, b in enumerate(c["blocks"]):
            m = nl.get_module("M%d" % i)
            kind = ("fixed" if m.is_fixed else "hard" if m.is_hard else "soft")
            if kind != b["kind"]:
                raise Violation("%s: block %d is %s in the data, %s in the document" % (what, i, b["kind"], kind), "content-differs")
            want = [tuple(Fr(v) * Fr(c["unit"]) for v in r) for r in b["rects"]]
            got = [X.of_frame(r) for r in m.rectangles]
            s64 = lambda e: tuple(Fr(round(float(v) / u * 64)) for v in e)
            if not X.same_union([s64(e) for e in got], [s64(e) for e in want]):
                raise Violation("%s: block %d has rectangles %s, its polygon is the union of %s" % (
                    what, i, [tuple(map(float, e)) for e in got], [tuple(map(float, e)) for e in want]), "content-differs")
            if kind == "soft" and abs(m.area() - float(data["area_blocks"][i])) > 1e-9 * (1 + m.area()):
                raise Violation("%s: block %d area %r, data %r" % (what, i, m.area(), data["area_blocks"][i]), "content-differs")
            if not m.has_stog and len(m.rectangles) > 1:
                raise Violation("%s: block %d is not recognised as a single-trunk orthogon" % (what, i), "content-differs")
        for k, p in enumerate(c["pins"]):
            m = nl.get_module("T%d" % k)
            px, py = p[0] * u, p[1] * u
            if c["tam"]:
                if not (m.is_fixed and len(m.rectangles) == 1):
                    raise Violation("%s: pin %d is not a fixed one-rectangle module" % (what, k), "content-differs")
                r = m.rectangles[0]
                e = X.of_frame(r)
                if abs(r.center.x - px) > 2.1e-3 or abs(r.center.y - py) > 2.1e-3 or e[0] < -1e-12 or e[1] < -1e-12 or \
                        e[2] > W + 1e-12 or e[3] > H + 1e-12:
                    raise Violation("%s: pin %d at (%r, %r) became rectangle %s (die %r x %r)" % (what, k, px, py, r, W, H), "content-differs")
            else:
                if not m.is_terminal or m.center is None or (m.center.x, m.center.y) != (px, py):
                    raise Violation("%s: pin %d at (%r, %r) reads back as %s" % (what, k, px, py, m), "content-differs")
        got_nets = [([b.name for b in e.modules], e.weight) for e in nl.edges]
        if got_nets != [(mm, float(w)) for mm, w in nets_before]:
            raise Violation("%s: nets read %s, instance has %s" % (what, got_nets[:4], nets_before[:4]), "content-differs")
    cls = ["tam" if c["tam"] else "terminals", "density" if c["density"] else "no-density"]
    if any(p[0] not in (0,) and p[1] not in (0,) for p in c["pins"]):
        cls.append("pin-not-on-lower-left")
    if any(len(b["rects"]) >= 3 for b in c["blocks"]):
        cls.append("polygonal-block")
    if any(b["kind"] == "fixed" and b.get("both") for b in c["blocks"]):
        cls.append("preplaced-and-fixed-shape")
    return dict(nt=len(c["blocks"]) >= 2 and any(w != 1 for _, w in nets_before), cls=cls)


@st.composite
def floorset_s(draw):
    unit = draw(st.sampled_from(["1", "0.5", "2.5", "0.1", "10"]))
    nb = draw(_i(1, 4))
    S = 14
    blocks = []
    for i in range(nb):
        rects, _ = draw(stog_rects(i * S + 1, 1, 2, 4, 3, 5))
        blocks.append(dict(rects=rects, kind=draw(st.sampled_from(["soft", "soft", "hard", "fixed"])), cw=draw(st.booleans()),
                           both=draw(st.booleans())))
    W, H = nb * S, S
    pins = [[W, draw(_i(0, H))], [draw(_i(0, W)), H]]  # the die is spanned by the pins
    for _ in range(draw(_i(0, 4))):
        side = draw(_i(0, 3))
        t = draw(_i(0, W if side in (1, 3) else H))
        pins.append([0, t] if side == 0 else [t, 0] if side == 1 else [W, t] if side == 2 else [t, H])
    pins = list(draw(st.permutations(pins)))
    b2b = []
    if nb >= 2:
        for _ in range(draw(_i(0, 4))):
            a, b = draw(_i(0, nb - 1)), draw(_i(0, nb - 1))
            if a != b:
                b2b.append([a, b, draw(st.sampled_from([1, 1, 2, 3, 16, 0]))])
    p2b = [[draw(_i(0, len(pins) - 1)), draw(_i(0, nb - 1)), draw(st.sampled_from([1, 2, 5, 0]))] for _ in range(draw(_i(0, 4)))]
    density = draw(st.sampled_from([None, None, 0.5]))
    if density and not any(e[2] > 0 for e in b2b + p2b):
        density = None  # a connection density is meaningless (0 / 0) without any weighted connection
    return dict(unit=unit, W=W, H=H, blocks=blocks, pins=pins, b2b=b2b, p2b=p2b, pad=draw(_i(0, 3)),
                density=density, tam=draw(st.booleans()))


# ---- rect_io -------------------------------------------------------------------------------------------------

PLAIN_NAMES = ["M1", "true", "A", "null", "core", "yes", "x_", "False", "T", "Module_with_a_long_name_0123456789", "N", "off"]


def netlist_fields(nl):
    out = []
    for m in nl.modules:
        out.append(dict(name=m.name, soft=m.is_soft, hard=m.is_hard, fixed=m.is_fixed, terminal=m.is_terminal, area=m.area(),
                        center=None if m.center is None else (m.center.x, m.center.y),
                        rects=sorted((r.center.x, r.center.y, r.shape.w, r.shape.h) for r in m.rectangles)))
    nets = [([b.name for b in e.modules], e.weight) for e in nl.edges]
    return out, nets


def run_rectio_alloc(c):
    if c.get("rename"):
        c = copy.deepcopy(c)
        ren = {"M0": "true", "M1": "null", "M2": "yes", "M3": "False"}
        for x in c["cells"]:
            x["a"] = {ren.get(k, k): v for k, v in x["a"].items()}
    al = A.build(c)
    text = al.write_yaml()
    try:
        with contextlib.redirect_stdout(io.StringIO()):
            nl = via_file(text, lambda p: rect_io.get_netlist(None, p))
    except Exception as e:
        raise Violation("rect_io.get_netlist(None, allocation) raised %s: %s for cells %s" % (
            type(e).__name__, str(e)[:200], [(x["r"], x["a"]) for x in c["cells"]]), "producer-raised")
    mods = []
    for a in al.allocations:
        for m in a.alloc:
            if m not in mods:
                mods.append(m)
    if [m.name for m in nl.modules] != mods:
        raise Violation("get_netlist(None, allocation): modules %s, the allocation has %s" % ([m.name for m in nl.modules], mods), "content-differs")
    for m in nl.modules:
        if not m.is_soft or abs(m.area() - al.area(m.name)) > 1e-9 * al.area(m.name) or m.center is None or \
                abs(m.center.x - al.center(m.name).x) > 1e-9 * (1 + abs(m.center.x)) or \
                abs(m.center.y - al.center(m.name).y) > 1e-9 * (1 + abs(m.center.y)):
            raise Violation("get_netlist(None, allocation): module %s area %r centre %s; allocated area %r centre %s" % (
                m.name, m.area(), m.center, al.area(m.name), al.center(m.name)), "content-differs")
    if nl.num_edges != 0:
        raise Violation("get_netlist(None, allocation) invented nets", "content-differs")
    return dict(nt=len(mods) >= 2, cls=["zero-ratio-first"] if any(
        next((x["a"][m] for x in c["cells"] if m in x["a"]), 1) == 0 for m in mods) else [])


def run_rectio_solution(c):
    model = c["model"]
    nl = Netlist(G.to_tree(model))
    before = netlist_fields(nl)
    boxes = {}
    u = Fr(model["unit"])
    for name, bl in c["boxes"].items():
        boxes[name] = [tuple(float(v) for v in L.csr(r, model["unit"])) for r in bl]
    try:
        t1 = rect_io.solution_to_netlist(nl, boxes)
        t2 = rect_io.solution_to_netlist(nl, boxes)
    except Exception as e:
        raise Violation("solution_to_netlist raised %s: %s for %s" % (type(e).__name__, e, G.to_tree(model)), "producer-raised")
    if netlist_fields(nl) != before:
        raise Violation("solution_to_netlist altered the netlist", "producer-mutates")
    if t1 != t2:
        raise Violation("solution_to_netlist twice gives different documents", "not-repeatable")
    for nl2 in read_both(t1, Netlist, "solution_to_netlist"):
        after = netlist_fields(nl2)
        if [m["name"] for m in after[0]] != [m["name"] for m in before[0]]:
            raise Violation("solution_to_netlist: modules %s read back as %s" % ([m["name"] for m in before[0]], [m["name"] for m in after[0]]), "content-differs")
        for a, b in zip(before[0], after[0]):
            exp = dict(a)
            if a["name"] in boxes:
                exp["rects"] = sorted(boxes[a["name"]])
            for k in ("soft", "hard", "fixed", "terminal"):
                if exp[k] != b[k]:
                    raise Violation("solution_to_netlist: module %s: %s was %r, reads back %r\n%s" % (a["name"], k, exp[k], b[k], t1), "content-differs")
            if exp["rects"] != b["rects"]:
                raise Violation("solution_to_netlist: module %s rectangles %s read back as %s" % (a["name"], exp["rects"], b["rects"]), "content-differs")
            if abs(exp["area"] - b["area"]) > 1e-9 * (1 + exp["area"]) and not (a["name"] in boxes):
                raise Violation("solution_to_netlist: module %s area %r reads back %r" % (a["name"], exp["area"], b["area"]), "content-differs")
            if a["name"] in boxes and a["soft"] and abs(a["area"] - b["area"]) > 1e-9 * (1 + a["area"]):
                raise Violation("solution_to_netlist: soft module %s area %r reads back %r" % (a["name"], a["area"], b["area"]), "content-differs")
            if not exp["rects"] and exp["center"] != b["center"]:
                raise Violation("solution_to_netlist: module %s centre %s reads back %s" % (a["name"], exp["center"], b["center"]), "content-differs")
        if before[1] != after[1]:
            raise Violation("solution_to_netlist: nets %s read back as %s\n%s" % (before[1], after[1], t1), "content-differs")
    kinds = {m["kind"] for m in model["modules"]}
    return dict(nt=len(model["modules"]) >= 2 and any(w != 1.0 for _, w in before[1]), cls=["kind-" + k for k in kinds] + (["with-boxes"] if boxes else []))


@st.composite
def rectio_solution_s(draw):
    model = draw(G.netlist_model(max_modules=5, all_centres=True, allow_flip=False, regions_ok=False, soft_rect_overlap=False))
    # plain names, no aspect ratio (the producer does not carry it), terminals keep their centre
    for i, m in enumerate(model["modules"]):
        old = m["name"]
        m["name"] = PLAIN_NAMES[i]
        m["ar"] = None
        for e in model["nets"]:
            e["m"] = [m["name"] if x == old else x for x in e["m"]]
    boxes = {}
    for m in model["modules"]:
        if m["kind"] == "soft" and draw(st.booleans()):
            rs, _ = draw(stog_rects(draw(_i(0, 20)), draw(_i(0, 20)), 1, 4, 2, 3))
            boxes[m["name"]] = rs
    return dict(model=model, boxes=boxes)


# ---- legalfloor Model.get_netlist ---------------------------------------------------------------------------------

def run_legal(c):
    try:
        nl, model = c09.build_model(c)
    except Exception as e:
        return dict(nt=False, cls=["model-not-built"])  # C09's business
    try:
        if c["which"]:
            maps = c09.index_map(c, model)
            c09.assign(model, maps, c09.config_of(c, 1))
        try:
            with contextlib.redirect_stdout(io.StringIO()):
                out = model.get_netlist()
        except Exception as e:
            raise Violation("Model.get_netlist raised %s: %s for %s" % (type(e).__name__, str(e)[:300], c09.doc_of(c)), "rejected")
        cfg = c09.config_of(c, 1 if c["which"] else 0)
        if [m.name for m in out.modules] != [m["name"] for m in c["modules"]]:
            raise Violation("Model.get_netlist: modules %s, the model was built from %s" % ([m.name for m in out.modules], [m["name"] for m in c["modules"]]),
                            "content-differs")
        for m, src, rects in zip(out.modules, c["modules"], cfg):
            kind = "fixed" if m.is_fixed else "hard" if m.is_hard else "soft"
            if kind != src["kind"]:
                raise Violation("Model.get_netlist: module %s is %s in the input netlist and %s in the emitted one (%s)" % (
                    m.name, src["kind"], kind, c09.doc_of(c)["Modules"][m.name]), "content-differs")
            got = sorted((r.center.x, r.center.y, r.shape.w, r.shape.h) for r in m.rectangles)
            want = sorted(rects)
            if len(got) != len(want) or any(abs(a - b) > 1e-9 * (1 + abs(b)) for g, w in zip(got, want) for a, b in zip(g, w)):
                raise Violation("Model.get_netlist: module %s rectangles %s, the model holds %s" % (m.name, got, want), "content-differs")
            if kind == "soft":
                req = float(FP.required_area_units(src, c["S"]) * Fr(c["unit"]) ** 2)
                if abs(m.area() - req) > 1e-9 * (1 + req):
                    raise Violation("Model.get_netlist: soft module %s area %r, required area %r" % (m.name, m.area(), req), "content-differs")
        want_nets = [(e["m"], 1.0 if e["w"] is None else float(e["w"])) for e in c["nets"]]
        got_nets = [([b.name for b in e.modules], e.weight) for e in out.edges]
        if got_nets != want_nets:
            raise Violation("Model.get_netlist: nets %s, the model was built from %s" % (got_nets, want_nets), "content-differs")
        return dict(nt=len(c["modules"]) >= 2 and any(w != 1.0 for _, w in want_nets),
                    cls=["kind-" + m["kind"] for m in c["modules"]] + (["assigned-config"] if c["which"] else ["input-config"]))
    finally:
        c09.cleanup(model)


@st.composite
def legal_s(draw):
    c = draw(FP.floorplan())
    c["which"] = draw(_i(0, 1))
    if draw(_i(0, 2)) == 0:  # identifiers that YAML would read as another type when left unquoted
        ren = dict(zip([m["name"] for m in c["modules"]], ["true", "null", "yes", "False"]))
        for m in c["modules"]:
            m["name"] = ren[m["name"]]
        for e in c["nets"]:
            e["m"] = [ren[x] for x in e["m"]]
    return c


def subchecks():
    return [
        Sub("die", run_die, strategy=die_s(), n_quick=1500, n_thorough=30000, required=("refined-split", "with-fixed", "specialised", "failed-productions-in-between", "written-over-a-longer-file")),
        Sub("alloc", run_alloc, strategy=alloc_s(), n_quick=1500, n_thorough=30000,
            required=("generated", "initial", "after-refine", "after-griddify", "depth>0", "cell-in-region", "failed-productions-in-between")),
        Sub("netgen", run_netgen, enum=netgen_cases, exhaustive=True, desc="every listed topology at every listed size through netgen.main"),
        Sub("floorset", run_floorset, strategy=floorset_s(), n_quick=1200, n_thorough=25000,
            required=("tam", "terminals", "density", "pin-not-on-lower-left", "polygonal-block", "preplaced-and-fixed-shape")),
        Sub("rectio-alloc", run_rectio_alloc, strategy=st.builds(lambda c, r: dict(c, rename=r), A.alloc_case(allow_fixed=False), st.booleans()),
            n_quick=1200, n_thorough=25000),
        Sub("rectio-solution", run_rectio_solution, strategy=rectio_solution_s(), n_quick=1200, n_thorough=25000,
            required=("kind-soft", "kind-hard", "kind-fixed", "kind-terminal", "with-boxes")),
        Sub("legal", run_legal, strategy=legal_s(), n_quick=800, n_thorough=12000, shrink_quick=False,
            required=("kind-soft", "kind-hard", "kind-fixed", "assigned-config", "input-config")),
    ]
