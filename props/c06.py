"""C06  Single-trunk orthogon recognition is sound and complete (create_stog, Module.create_stog, Netlist load)."""
from fractions import Fraction as Fr

from hypothesis import strategies as st

from frame.geometry.geometry import Point, Rectangle, Shape, create_stog
from frame.netlist.netlist import Netlist
from gen import lattice as L
from vfw import exact as X
from vfw.core import Sub, Violation

PROP = "C06"
RULE = ("a list of 1-9 rectangles on a lattice (dyadic or decimal unit >= 0.0025): single-trunk orthogons with 0-3 branches per "
        "side (flush with corners or not), then optionally one mutation (gap, overhang, overlap with the trunk, duplicate of the "
        "trunk or of a branch, extra unrelated rectangle), in a generated order; or fully random lists. Called directly "
        "(create_stog after set_epsilon) and through Netlist loading of a soft module. Oracle: brute force over all candidate "
        "trunks on the exact lattice coordinates, identity based. non-trivial = at least 3 rectangles; distinct = distinct case.")
ASSUMPTIONS = [
    "lattice unit >= 0.0025 and coordinates <= 30 units (dyadic units also shifted by up to 3e6 units: exact in floats), so every gap/overhang/overlap (>= one unit, >= one unit^2) is far above FRAME's "
    "epsilons (1e-12 x smallest side; its square root for areas) and every exact contact is far below them",
    "'every other rectangle' is read per list element (identity), so a second copy of the trunk is another rectangle that overlaps it",
    "branches may overlap each other: the statement only constrains each branch against the trunk",
]

LOC = Rectangle.StogLocation
SIDE = {LOC.NORTH: "N", LOC.SOUTH: "S", LOC.EAST: "E", LOC.WEST: "W"}


def exact_rects(c):
    u = Fr(c["unit"])
    return [tuple(Fr(v) * u for v in r) for r in c["rects"]]


def trunk_ok(er, t):
    return all(i == t or X.abut_side(er[t], er[i]) for i in range(len(er)))


def judge(c, rects, result, what):
    """rects: the FRAME rectangles after the call, in their new order; orig: list of (object, exact rect) before the call"""
    er0 = exact_rects(c)
    objs = c["_objs"]
    n = len(objs)
    expected = n == 1 or any(trunk_ok(er0, t) for t in range(n))
    if bool(result) != expected or not isinstance(result, bool):
        cand = [t for t in range(n) if trunk_ok(er0, t)]
        raise Violation("%s: rectangles %s (unit %s) reported %r, but %s" % (
            what, c["rects"], c["unit"], result,
            ("rectangle #%d can serve as trunk" % cand[0]) if expected else "no rectangle can serve as trunk"),
            "false-negative" if expected else "false-positive")
    # permutation of the same objects, nothing altered
    if sorted(map(id, rects)) != sorted(map(id, objs)) or len(rects) != n:
        raise Violation("%s: the list is no longer a permutation of the same rectangle objects" % what, "not-permutation")
    pos = {id(o): i for i, o in enumerate(objs)}
    for r in rects:
        i = pos[id(r)]
        if X.of_frame(r) != c["_float_exact"][i]:
            raise Violation("%s: rectangle #%d was altered: %s" % (what, i, r), "altered")
    if expected:
        t = pos[id(rects[0])]
        if n > 1 and not trunk_ok(er0, t):
            raise Violation("%s: rectangle #%d %s is listed first but is not a valid trunk for %s" % (
                what, t, c["rects"][t], c["rects"]), "invalid-trunk-first")
        if rects[0].location != LOC.TRUNK:
            raise Violation("%s: the first rectangle carries %s, not TRUNK" % (what, rects[0].location), "trunk-role")
        for r in rects[1:]:
            i = pos[id(r)]
            sides = X.abut_side(er0[t], er0[i])
            if SIDE.get(r.location) not in sides:
                raise Violation("%s: branch #%d %s carries %s but abuts the trunk %s on %s" % (
                    what, i, c["rects"][i], r.location, c["rects"][t], sorted(sides)), "wrong-side")
    else:
        for r in rects:
            if r.location != LOC.NO_POLYGON:
                raise Violation("%s: not an orthogon but rectangle #%d carries %s" % (what, pos[id(r)], r.location), "role-without-stog")


def run_stog(c):
    u = Fr(c["unit"])
    er = exact_rects(c)
    n = len(er)
    cls = []
    cs = [((r[0] + r[2]) / 2, (r[1] + r[3]) / 2, r[2] - r[0], r[3] - r[1]) for r in er]
    if c["mode"] == "direct":
        smallest = min(min(float(w), float(h)) for _, _, w, h in cs)
        Rectangle.set_epsilon(smallest * 1e-12)
        objs = [Rectangle(center=Point(float(x), float(y)), shape=Shape(float(w), float(h))) for x, y, w, h in cs]
        for o, loc in zip(objs, c.get("pre", [])):
            o.location = list(LOC)[loc % 6]  # stale roles from an earlier call must not matter
        lst = list(objs)
        c = dict(c, _objs=objs, _float_exact=[X.of_frame(o) for o in objs])
        try:
            res = create_stog(lst)
        except Exception as e:
            raise Violation("create_stog(%s) raised %s: %s" % (c["rects"], type(e).__name__, e), "raised")
        judge(c, lst, res, "create_stog")
    else:
        area = float(sum(w * h for _, _, w, h in cs))
        # the other modules of the netlist, listed before and after M: with rectangles, without any (area only, area + centre),
        # terminals, hard modules - recognition of M must not depend on what is listed around it
        OTHER = {"soft-rect": {"area": 1, "rectangles": [[1000.5, 1000.5, 1, 1]]}, "soft-area": {"area": 2.5},
                 "soft-centre": {"area": 4, "center": [3.5, 2.5]}, "terminal": {"terminal": True, "center": [0.5, 7]},
                 "hard": {"hard": True, "rectangles": [[2000.5, 1000.5, 2, 1], [2000.5, 1001.5, 1, 1]]}}
        mods = {}
        others = c.get("others") or [[], ["soft-rect"]]
        for k, kind in enumerate(others[0]):
            mods["B%d" % k] = dict(OTHER[kind])
        mods["M"] = {"area": area, "rectangles": [[X.num(x), X.num(y), X.num(w), X.num(h)] for x, y, w, h in cs]}
        if c.get("mkind") in ("hard", "fixed") and all(X.inter_area(er[i], er[j]) == 0 for i in range(n) for j in range(i + 1, n)):
            # the same list as a hard / fixed block (its rectangles may not overlap each other): recognition is about the rectangles,
            # whatever the kind of the module, in every order
            mods["M"] = {c["mkind"]: True, "rectangles": mods["M"]["rectangles"]}
            cls.append("hard-or-fixed-module")
            if n >= 2:
                cls.append("hard-or-fixed-module-with-several-rectangles")
        for k, kind in enumerate(others[1]):
            mods["T" if k == 0 else "A%d" % k] = dict(OTHER[kind])
        names = list(mods)
        doc = {"Modules": mods, "Nets": [names[:2]] if len(names) >= 2 else []}
        rectless = any(kind in ("soft-area", "soft-centre", "terminal") for side in others for kind in side)
        if any(kind in ("soft-area", "soft-centre", "terminal") for kind in others[0]):
            cls.append("module-without-rectangles-listed-before")
        try:
            nl = Netlist(doc)
        except Exception as e:
            raise Violation("Netlist with soft module of rectangles %s raised %s: %s" % (c["rects"], type(e).__name__, e), "load-raised")
        m = nl.get_module("M")
        lst = m.rectangles
        # identify the loaded objects with the input positions through their (unique up to duplicates) geometry
        remaining = list(range(n))
        objs = [None] * n
        fl = [X.rect_cs(X.num(x), X.num(y), X.num(w), X.num(h)) for x, y, w, h in cs]
        for r in lst:
            e = X.of_frame(r)
            k = next((i for i in remaining if fl[i] == e), None)
            if k is None:
                raise Violation("Netlist load: rectangle %s of the module is not one of the input rectangles" % r, "altered")
            remaining.remove(k)
            objs[k] = r
        if remaining:
            raise Violation("Netlist load: %d input rectangles are missing from the module" % len(remaining), "not-permutation")
        c = dict(c, _objs=objs, _float_exact=fl)
        judge(c, lst, m.has_stog, "Netlist load / has_stog")
        # a second recognition on the loaded module gives the same verdict
        lst2 = m.rectangles
        res2 = m.create_stog()
        judge(dict(c), lst2, res2, "Module.create_stog (second call)")
        if c.get("mkind") == "hard" and "hard-or-fixed-module" in cls:
            # the global floorplanner builds one-rectangle hard modules around the SAME rectangle objects (optimize_allocation): the
            # module they belong to is still reported as before
            from frame.netlist.module import Module
            for k, r in enumerate(list(m.rectangles)):
                fake = Module("M_%d" % k, hard=True)
                fake.add_rectangle(r)
                fake.setup()
                fake.calculate_center_from_rectangles()
            judge(dict(c), m.rectangles, m.has_stog, "has_stog after one-rectangle modules were built around the same rectangle objects")
            cls.append("rectangles-shared-with-other-modules")
        # the rectangles are edited in place (one moved, or one added) and the module is recognised again: the verdict
        # and the roles must follow the new geometry, not the earlier recognition
        ed = c.get("edit")
        if ed:
            rects2 = [list(r) for r in c["rects"]]
            if ed[0] == "move":
                k = ed[1] % n
                r = rects2[k]
                r2 = [r[0] + ed[2], r[1] + ed[3], r[2] + ed[2], r[3] + ed[3]]
                if min(r2[0] + r2[2], r2[1] + r2[3]) >= 0:
                    rects2[k] = r2
                    cx, cy, w, h = L.csr(r2, c["unit"])
                    if len(ed) == 6 and ed[4] == "inplace":
                        # the way FRAME itself moves rectangles (Module.recenter_rectangles, the flip code of glbfloor)
                        objs[k].center.x = X.num(cx)
                        objs[k].center.y = X.num(cy)
                        cls.append("moved-through-the-point-object")
                    else:
                        objs[k].center = Point(X.num(cx), X.num(cy))
                    fl[k] = X.rect_cs(X.num(cx), X.num(cy), X.num(w), X.num(h))
            elif ed[0] == "single":
                # the module is reduced to ONE of its rectangles (which may carry a branch role from the earlier recognition)
                k = ed[1] % n
                keep_obj = objs[k]
                m.clear_rectangles()
                m.add_rectangle(keep_obj)
                rects2 = [list(c["rects"][k])]
                objs, fl = [keep_obj], [fl[k]]
                cls.append("reduced-to-one-rectangle")
            else:
                r2 = ed[1]
                rects2.append(list(r2))
                cx, cy, w, h = L.csr(r2, c["unit"])
                newr = Rectangle(center=Point(X.num(cx), X.num(cy)), shape=Shape(X.num(w), X.num(h)))
                m.add_rectangle(newr)
                objs = objs + [newr]
                fl = fl + [X.of_frame(newr)]
            c2 = dict(c, rects=rects2, _objs=objs, _float_exact=fl)
            via = ed[-1]
            if via == "netlist" and not rectless:
                nl.create_stogs()
                res3 = m.has_stog
            else:
                res3 = m.create_stog()
            judge(c2, m.rectangles, res3 if via != "netlist" or rectless else m.has_stog, "recognition after editing the rectangles in place (%s)" % via)
            cls.append("edited-then-recognised-again")
    expected = n == 1 or any(trunk_ok(er, t) for t in range(n))
    ntr = sum(1 for t in range(n) if trunk_ok(er, t))
    cls.append("stog" if expected else "not-stog")
    if ntr >= 2:
        cls.append("several-trunks")
    cls.append("mut-" + c.get("mut", "none"))
    cls.append(c["mode"])
    if len({tuple(r) for r in c["rects"]}) < n:
        cls.append("duplicates")
    if min(r[0] for r in c["rects"]) >= 4096:
        cls.append("far-from-origin")
    return dict(nt=n >= 3, cls=cls)


_i = st.integers


@st.composite
def stog_s(draw):
    unit = draw(st.sampled_from(["0.125", "0.5", "1", "2", "16", "0.1", "0.3", "0.7", "0.0025", "0.025", "2.5", "1.1", "7"]))
    mode = draw(st.sampled_from(["direct", "direct", "netlist"]))
    kind = draw(_i(0, 5))
    mut = "none"
    if kind == 0:  # random list
        rects = [draw(L.int_rect(10, 10, 6, 6)) for _ in range(draw(_i(1, 6)))]
        mut = "random"
    else:
        tx0, ty0 = draw(_i(8, 12)), draw(_i(8, 12))
        tw, th = draw(_i(1, 8)), draw(_i(1, 8))
        T = [tx0, ty0, tx0 + tw, ty0 + th]
        rects = [T]
        for side in "NSEW":
            for _ in range(draw(st.sampled_from([0, 0, 1, 1, 2, 3]))):
                ext = tw if side in "NS" else th
                lo = draw(_i(0, ext - 1))
                hi = draw(_i(lo + 1, ext))
                if draw(_i(0, 3)) == 0:
                    lo = 0
                if draw(_i(0, 3)) == 0:
                    hi = ext
                d = draw(_i(1, 6))
                if side == "N":
                    rects.append([tx0 + lo, T[3], tx0 + hi, T[3] + d])
                elif side == "S":
                    rects.append([tx0 + lo, T[1] - d, tx0 + hi, T[1]])
                elif side == "E":
                    rects.append([T[2], ty0 + lo, T[2] + d, ty0 + hi])
                else:
                    rects.append([T[0] - d, ty0 + lo, T[0], ty0 + hi])
        rects = rects[:9]
        mut = draw(st.sampled_from(["none", "none", "none", "gap", "overhang", "overlap", "dup-trunk", "dup-branch", "extra"]))
        if mut in ("gap", "overhang", "overlap", "dup-branch") and len(rects) < 2:
            mut = "none"
        if mut in ("gap", "overhang", "overlap"):
            k = draw(_i(1, len(rects) - 1))
            b = rects[k]
            s = draw(_i(1, 2))
            # which side is b on?
            if b[1] == T[3]:
                side = "N"
            elif b[3] == T[1]:
                side = "S"
            elif b[0] == T[2]:
                side = "E"
            else:
                side = "W"
            dx = {"E": 1, "W": -1}.get(side, 0)
            dy = {"N": 1, "S": -1}.get(side, 0)
            if mut == "gap":
                b = [b[0] + dx * s, b[1] + dy * s, b[2] + dx * s, b[3] + dy * s]
            elif mut == "overlap":
                b = [b[0] - dx * s, b[1] - dy * s, b[2] - dx * s, b[3] - dy * s]
            else:  # overhang: push along the side until it sticks out
                if side in "NS":
                    if draw(st.booleans()):
                        b = [b[0], b[1], T[2] + s, b[3]]
                    else:
                        b = [T[0] - s, b[1], b[2], b[3]]
                else:
                    if draw(st.booleans()):
                        b = [b[0], b[1], b[2], T[3] + s]
                    else:
                        b = [b[0], T[1] - s, b[2], b[3]]
            rects[k] = b
        elif mut == "dup-trunk":
            rects.append(list(T))
        elif mut == "dup-branch":
            rects.append(list(rects[draw(_i(1, len(rects) - 1))]))
        elif mut == "extra":
            rects.append(draw(L.int_rect(30, 30, 5, 5)))
        rects = rects[:9]
        rects = draw(st.permutations(rects)) if draw(_i(0, 3)) else rects
    pre = [draw(_i(0, 5)) for _ in rects] if draw(_i(0, 2)) == 0 else []
    # far from the origin (dyadic units only, so that every coordinate stays exact): the recogniser's tolerance is
    # 1e-12 x the smallest side, which is then smaller than half an ulp of the coordinates
    if Fr(unit).denominator & (Fr(unit).denominator - 1) == 0 and draw(_i(0, 3)) == 0:
        off = draw(st.sampled_from([4096, 100000, 3000000]))
        rects = [[r[0] + off, r[1] + off, r[2] + off, r[3] + off] for r in rects]
    edit = None
    if mode == "netlist" and draw(st.booleans()):
        via = draw(st.sampled_from(["module", "netlist"]))
        w = draw(_i(0, 4))
        if w <= 1:
            edit = ["move", draw(_i(0, 8)), draw(_i(-2, 2)), draw(_i(-2, 2)), draw(st.sampled_from(["setter", "inplace"])), via]
        elif w == 2:
            edit = ["single", draw(_i(0, 8)), via]
        else:
            edit = ["append", draw(L.int_rect(30, 30, 5, 5)), via]
    others = None
    if mode == "netlist":
        kinds = ["soft-rect", "soft-area", "soft-centre", "terminal", "hard"]
        others = [[draw(st.sampled_from(kinds)) for _ in range(draw(_i(0, 2)))], [draw(st.sampled_from(kinds)) for _ in range(draw(_i(0, 2)))]]
    return dict(unit=unit, rects=[list(r) for r in rects], mode=mode, mut=mut, pre=pre, edit=edit, others=others,
                mkind=draw(st.sampled_from(["soft", "soft", "hard", "fixed"])) if mode == "netlist" else None)


def subchecks():
    return [Sub("lists", run_stog, strategy=stog_s(), n_quick=40000, n_thorough=1000000, fuzz_thorough=20000,
                required=("stog", "not-stog", "several-trunks", "mut-gap", "mut-overhang", "mut-overlap", "mut-dup-trunk",
                          "mut-dup-branch", "mut-extra", "direct", "netlist", "duplicates", "edited-then-recognised-again", "moved-through-the-point-object", "reduced-to-one-rectangle", "module-without-rectangles-listed-before", "far-from-origin",
                          "hard-or-fixed-module-with-several-rectangles", "rectangles-shared-with-other-modules"))]
