"""C16  Pseudo-Boolean expression algebra preserves integer semantics (tools/rect/pseudobool.py)."""
import itertools
import json

from hypothesis import strategies as st

from tools.rect import pseudobool as pb
from vfw.core import Sub, Violation

PROP = "C16"
RULE = ("trees: expression trees (depth <= 5, <= 4 variable names) built with the operator overloads of Literal/Term/Expr "
        "(+, radd with int/str, Expr - x, * int both sides, -Term, -Literal, Expr(c)), optionally closed by one of the five "
        "comparisons; each tree is evaluated by a plain-int reference under all 2^n assignments. non-trivial = some variable "
        "occurs with both polarities, or a coefficient sign flip, or a cancellation to zero happens; distinct = distinct tree. "
        "chains: bounded-exhaustive left-deep chains (x op y) op z ... over 2 variables and constants -2..2.")
ASSUMPTIONS = [
    "only operand combinations for which an overload exists are built (int + Expr, Literal - x, Term - x, -Expr raise TypeError: a refusal, not a wrong value)",
    "multipliers and constants are Python ints (the property speaks of integer multiples)",
    "an exception while building a supported combination counts as a violation (the current tree raises on none of them)",
]

VARS = ["a", "b", "c", "d"]


# ---- building with the real overloads, and the reference evaluation ---------------------------

def build(n):
    k = n[0]
    if k == "lit":
        return pb.Literal(n[1], bool(n[2]))
    if k == "int":
        return int(n[1])
    if k == "str":
        return str(n[1])
    if k == "expr":
        return pb.Expr() if n[1] is None else pb.Expr(int(n[1]))
    if k == "termc":
        return pb.Term(build(n[1]), int(n[2]))
    if k in ("add", "sub"):
        A, B = build(n[1]), build(n[2])
        sa, sb = snap(A), snap(B)
        R = A + B if k == "add" else A - B
        if snap(A) != sa or snap(B) != sb:
            raise Violation("operand mutated by %s: %s" % (k, show(n)), "operand-mutated")
        return R
    if k == "shared":
        # one sub-expression reused the way accumulation loops do: two names start from it and grow with += ; each name means what
        # was added to IT, and the sub-expression itself still means what it meant
        base = build(n[1])
        sb = snap(base)
        left = base
        left += build(n[2])
        right = base
        right += build(n[3])
        if snap(base) != sb:
            raise Violation("a sub-expression changed its meaning when other names that started from it were grown with +=: %s is now %s; %s" % (
                sb, snap(base), show(n)), "operand-mutated")
        return left + right
    if k == "mul":
        A = build(n[1])
        sa = snap(A)
        R = A * int(n[2])
        if snap(A) != sa:
            raise Violation("operand mutated by *: %s" % show(n), "operand-mutated")
        return R
    if k == "rmul":
        A = build(n[2])
        sa = snap(A)
        R = int(n[1]) * A
        if snap(A) != sa:
            raise Violation("operand mutated by *: %s" % show(n), "operand-mutated")
        return R
    if k == "neg":
        A = build(n[1])
        sa = snap(A)
        R = -A
        if snap(A) != sa:
            raise Violation("operand mutated by unary -: %s" % show(n), "operand-mutated")
        return R
    if k == "cmp":
        A, B = build(n[2]), build(n[3])
        sa, sb = snap(A), snap(B)
        op = n[1]
        R = (A >= B) if op == ">=" else (A <= B) if op == "<=" else (A > B) if op == ">" else (A < B) if op == "<" else (A == B)
        if snap(A) != sa or snap(B) != sb:
            raise Violation("operand mutated by comparison: %s" % show(n), "operand-mutated")
        return R
    raise ValueError(k)


def is_lit(n):
    """does the node denote a Literal (so that unary minus is logical negation)?"""
    return n[0] == "lit" or (n[0] == "neg" and is_lit(n[1]))


def ev(n, asg):
    k = n[0]
    if k == "lit":
        return asg[n[1]] if n[2] else 1 - asg[n[1]]
    if k == "int":
        return int(n[1])
    if k == "str":
        return asg[n[1]]
    if k == "expr":
        return 0 if n[1] is None else int(n[1])
    if k == "termc":
        return ev(n[1], asg) * int(n[2])
    if k == "add":
        return ev(n[1], asg) + ev(n[2], asg)
    if k == "sub":
        return ev(n[1], asg) - ev(n[2], asg)
    if k == "shared":
        return 2 * ev(n[1], asg) + ev(n[2], asg) + ev(n[3], asg)
    if k == "mul":
        return ev(n[1], asg) * int(n[2])
    if k == "rmul":
        return int(n[1]) * ev(n[2], asg)
    if k == "neg":
        return 1 - ev(n[1], asg) if is_lit(n[1]) else -ev(n[1], asg)
    raise ValueError(k)


def show(n):
    k = n[0]
    if k == "lit":
        return ("" if n[2] else "~") + n[1]
    if k == "int":
        return str(n[1])
    if k == "str":
        return repr(n[1])
    if k == "expr":
        return "Expr(%s)" % ("" if n[1] is None else n[1])
    if k == "termc":
        return "Term(%s,%s)" % (show(n[1]), n[2])
    if k in ("add", "sub"):
        return "(%s %s %s)" % (show(n[1]), "+" if k == "add" else "-", show(n[2]))
    if k == "shared":
        return "(let s = %s in (s += %s) + (s += %s))" % (show(n[1]), show(n[2]), show(n[3]))
    if k == "mul":
        return "(%s * %s)" % (show(n[1]), n[2])
    if k == "rmul":
        return "(%s * %s)" % (n[1], show(n[2]))
    if k == "neg":
        return "-(%s)" % show(n[1])
    if k == "cmp":
        return "%s %s %s" % (show(n[2]), n[1], show(n[3]))
    return str(n)


def snap(o):
    if isinstance(o, pb.Expr):
        return ("E", o.c, tuple((k, t.L.v, t.L.s, t.c) for k, t in o.t.items()))
    if isinstance(o, pb.Term):
        return ("T", o.L.v, o.L.s, o.c)
    if isinstance(o, pb.Literal):
        return ("L", o.v, o.s)
    return ("V", o)


def variables(n, acc=None):
    acc = set() if acc is None else acc
    if n[0] in ("lit", "str"):
        acc.add(n[1])
    else:
        for x in n[1:]:
            if isinstance(x, list):
                variables(x, acc)
    return acc


def polarities(n, acc=None, flip=False):
    """(variable, polarity) occurrences; polarity True = positive literal"""
    acc = set() if acc is None else acc
    if n[0] == "lit":
        acc.add((n[1], bool(n[2]) != flip))
    elif n[0] == "str":
        acc.add((n[1], True))
    elif n[0] == "neg" and is_lit(n[1]):
        polarities(n[1], acc, not flip)
    else:
        for x in n[1:]:
            if isinstance(x, list):
                polarities(x, acc, flip)
    return acc


def has_negative(n):
    if n[0] in ("sub",):
        return True
    if n[0] in ("mul",) and int(n[2]) < 0:
        return True
    if n[0] in ("rmul",) and int(n[1]) < 0:
        return True
    if n[0] == "termc" and int(n[2]) < 0:
        return True
    if n[0] == "neg" and not is_lit(n[1]):
        return True
    return any(has_negative(x) for x in n[1:] if isinstance(x, list))


def value_of(o, asg):
    def lv(L):
        return asg[L.v] if L.s else 1 - asg[L.v]
    if isinstance(o, pb.Expr):
        return o.c + sum(t.c * lv(t.L) for t in o.t.values())
    if isinstance(o, pb.Term):
        return o.c * lv(o.L)
    if isinstance(o, pb.Literal):
        return lv(o)
    return int(o)


def check_normal_form(e, what, tree):
    if type(e.c) is not int:
        raise Violation("%s: constant %r is not an int in %s" % (what, e.c, show(tree)), "nf-constant")
    for k, t in e.t.items():
        if t.c <= 0:
            raise Violation("%s: coefficient %r of %s is not positive in %s -> %s" % (what, t.c, k, show(tree), e.tostr()),
                            "nf-coefficient")
        if k != t.L.v:
            raise Violation("%s: term for %s stored under key %s in %s" % (what, t.L.v, k, show(tree)), "nf-key")
        if type(t.c) is not int:
            raise Violation("%s: coefficient %r is not an int" % (what, t.c), "nf-coefficient")


def run_tree(tree):
    vs = sorted(variables(tree))
    try:
        built = build(tree)
    except Violation:
        raise
    except Exception as e:
        raise Violation("building %s raised %s: %s" % (show(tree), type(e).__name__, e), "build-raised")
    cls = []
    zero = False
    for bits in itertools.product((0, 1), repeat=len(vs)):
        asg = dict(zip(vs, bits))
        if tree[0] == "cmp":
            if not isinstance(built, pb.Ineq):
                raise Violation("%s did not build an Ineq but %r" % (show(tree), type(built).__name__), "cmp-type")
            a, b = ev(tree[2], asg), ev(tree[3], asg)
            op = tree[1]
            direct = a >= b if op == ">=" else a <= b if op == "<=" else a > b if op == ">" else a < b if op == "<" else a == b
            lhs = value_of(built.lhs, asg)
            if built.op == ">=":
                got = lhs >= built.rhs
            elif built.op == ">":
                got = lhs > built.rhs
            elif built.op == "=":
                got = lhs == built.rhs
            else:
                raise Violation("%s: normalised operator is %r" % (show(tree), built.op), "cmp-op")
            if got != direct:
                raise Violation("%s under %s: direct comparison %s %s %s is %s, normalised '%s %s %s' is %s" % (
                    show(tree), asg, a, op, b, direct, built.lhs.tostr(), built.op, built.rhs, got), "cmp-meaning")
        else:
            want = ev(tree, asg)
            got = value_of(built, asg)
            if got != want:
                raise Violation("%s under %s: value is %s, built expression %s evaluates to %s" % (
                    show(tree), asg, want, built.tostr() if hasattr(built, "tostr") else built, got), "value")
    if tree[0] == "cmp":
        check_normal_form(built.lhs, "Ineq.lhs", tree)
        if built.lhs.c != 0 or type(built.rhs) is not int:
            raise Violation("%s: normalised inequality keeps constant %r / bound %r" % (show(tree), built.lhs.c, built.rhs),
                            "cmp-constant")
        cls.append("cmp" + tree[1])
        nvars_out = len(built.lhs.t)
    elif isinstance(built, pb.Expr):
        check_normal_form(built, "Expr", tree)
        nvars_out = len(built.t)
    else:
        nvars_out = 1
    pol = polarities(tree)
    both = any((v, True) in pol and (v, False) in pol for v in vs)
    neg = has_negative(tree)
    cancel = nvars_out < len(vs)
    if both:
        cls.append("both-polarities")
    if neg:
        cls.append("sign-flip")
    if cancel:
        cls.append("cancellation")
    if '"shared"' in json.dumps(tree):
        cls.append("sub-expression-shared-and-grown-with-+=")
    return dict(nt=both or neg or cancel, cls=cls)


# ---- strategies ----------------------------------------------------------------------------------

K = st.integers(-6, 6)
_i = st.integers


@st.composite
def tree_s(draw):
    """type-directed construction: only operand combinations with an overload are produced"""
    def k():
        return draw(K)

    def var():
        return VARS[draw(_i(0, 3))]

    def lit():
        n = ["lit", var(), draw(st.booleans())]
        if draw(_i(0, 3)) == 0:
            n = ["neg", n]
        return n

    def simple_term():
        c = draw(_i(0, 2))
        if c == 0:
            return ["mul", lit(), k()]
        if c == 1:
            return ["rmul", k(), lit()]
        return ["termc", lit(), k()]

    def term():
        c = draw(_i(0, 5))
        t = simple_term()
        if c == 3:
            return ["neg", t]
        if c == 4:
            return ["mul", t, k()]
        if c == 5:
            return ["rmul", k(), t]
        return t

    def leaf():
        c = draw(_i(0, 3))
        return lit() if c == 0 else term() if c == 1 else ["int", k()] if c == 2 else ["str", var()]

    def expr(depth):
        if depth <= 0:
            c = draw(_i(0, 2))
            if c == 0:
                return ["expr", None]
            if c == 1:
                return ["expr", k()]
            return ["add", lit() if draw(st.booleans()) else term(), leaf()]
        c = draw(_i(0, 7))
        if c == 7:
            return ["shared", ["add", ["expr", k()], lit() if draw(st.booleans()) else term()],
                    lit() if draw(st.booleans()) else term(), lit() if draw(st.booleans()) else term()]
        if c <= 1:
            l = draw(_i(0, 3))
            left = lit() if l == 0 else term() if l == 1 else expr(depth - 1)
            right = leaf() if draw(st.booleans()) else expr(depth - 1)
            return ["add", left, right]
        if c == 2:
            return ["add", ["int", k()] if draw(st.booleans()) else ["str", var()], lit() if draw(st.booleans()) else term()]
        if c <= 4:
            return ["sub", expr(depth - 1), leaf() if draw(st.booleans()) else expr(depth - 1)]
        if c == 5:
            return ["mul", expr(depth - 1), k()]
        return ["rmul", k(), expr(depth - 1)]

    top = draw(_i(0, 4))
    if top <= 1:
        return expr(draw(_i(1, 4)))
    if top <= 3:
        l = draw(_i(0, 3))
        lhs = lit() if l == 0 else term() if l == 1 else expr(draw(_i(0, 3)))
        rhs = leaf() if draw(st.booleans()) else expr(draw(_i(0, 3)))
        return ["cmp", draw(st.sampled_from([">=", "<=", ">", "<", "="])), lhs, rhs]
    l = draw(_i(0, 2))
    rhs = lit() if l == 0 else term() if l == 1 else expr(draw(_i(0, 3)))
    return ["cmp", draw(st.sampled_from([">=", "<=", ">", "<"])), ["int", k()], rhs]


# ---- bounded exhaustive chains ------------------------------------------------------------------

def _leaves():
    lits = [["lit", v, s] for v in ("a", "b") for s in (True, False)]
    terms = [["mul", l, k] for l in lits for k in (-2, -1, 0, 1, 2)]
    ints = [["int", k] for k in (-2, -1, 0, 1, 2)]
    return lits, terms, ints


def chains(tier, shard, nshards):
    lits, terms, ints = _leaves()
    ops_leaf = lits + terms + ints
    firsts = [["add", x, y] for x in lits + terms for y in ops_leaf] + [["add", ["expr", k], y] for k in (0, 1, -2) for y in lits + terms]
    steps = [("add", y) for y in ops_leaf] + [("sub", y) for y in ops_leaf] + [("mul", k) for k in (-2, -1, 0, 1, 2)] + \
            [("rmul", k) for k in (-2, 2)]

    def ext(e, s):
        if s[0] == "rmul":
            return ["rmul", s[1], e]
        return [s[0], e, s[1]]

    depth = 2 if tier == "quick" else 3
    i = 0
    for f in firsts:
        for combo in itertools.product(steps, repeat=depth - 1):
            i += 1
            if i % nshards != shard:
                continue
            e = f
            for s in combo:
                e = ext(e, s)
            yield e
    # comparisons of one-operator expressions with leaves, all five operators
    for f in firsts:
        for y in ops_leaf:
            for op in (">=", "<=", ">", "<", "="):
                i += 1
                if i % nshards != shard:
                    continue
                yield ["cmp", op, f, y]


def subchecks():
    return [
        Sub("trees", run_tree, strategy=tree_s(), n_quick=60000, n_thorough=1500000, fuzz_thorough=60000,
            required=("both-polarities", "sign-flip", "cancellation", "cmp>=", "cmp<=", "cmp>", "cmp<", "cmp=",
                      "sub-expression-shared-and-grown-with-+=")),
        Sub("chains", run_tree, enum=chains, exhaustive=True,
            desc="all left-deep chains of 2 (quick) / 3 (thorough) operators over literals/terms/ints of 2 variables with "
                 "constants in -2..2, and all comparisons (5 operators) of one-operator expressions with a leaf"),
    ]
