"""C18  Rectangle operations agree with plane geometry (frame/geometry/geometry.py)."""
from fractions import Fraction as Fr

from hypothesis import strategies as st

from frame.geometry.geometry import Point, Rectangle, Shape
from gen import lattice as L
from vfw import exact as X
from vfw.core import Sub, Violation

PROP = "C18"
RULE = ("pairs: two rectangles on a dyadic lattice (unit 2^k, coordinates 0..14 units, regions from {_,A,B,#}, "
        "fixed/hard flags) so that FRAME's float arithmetic is exact and a Fraction oracle must agree bit for bit; "
        "each rectangle also against itself (one object on both sides); non-trivial = the closed rectangles share at least a boundary point; distinct = distinct canonical case. "
        "splits: one rectangle + cut coordinates (lattice, half-lattice, negative = halve), grid shapes 1..6 x 1..6, "
        "cuttable ratios; non-trivial = every case.")
ASSUMPTIONS = [
    "coordinates are dyadic rationals so that float evaluation is exact; decimal coordinates are exercised by C01/C03/C11",
    "Rectangle epsilon is set to unit*2^-20 (dyadic) before each case; 'touches' is asserted at gap 0, eps/2 (True) and 2*eps, one unit (False)",
    "cut coordinates are strictly inside the rectangle or negative (documented to mean 'halve'); other arguments raise and are not asserted",
    "split() at w == h may halve either side",
]

REGIONS = ["_", "_", "A", "B", "#", "dsp", "dsp", "BRAM"]


def mk(rect, unit, region="_", fixed=False, hard=False):
    cx, cy, w, h = L.csr(rect, unit)
    region = (region + " ")[:-1]  # (every rectangle gets its own string object, as names read from a document are: names are compared, not identified)
    return Rectangle(center=Point(float(cx), float(cy)), shape=Shape(float(w), float(h)), region=region,
                     fixed=fixed, hard=hard)


def frx(r):
    return X.of_frame(r)


@st.composite
def pair_case(draw):
    unit = draw(L.dyadic_unit())
    kind = draw(st.sampled_from(["free", "free", "touch", "nested", "same"]))
    a = draw(L.int_rect(14, 14, 8, 8))
    if kind == "free":
        b = draw(L.int_rect(14, 14, 8, 8))
    elif kind == "same":
        b = list(a)
    elif kind == "nested":
        x0 = draw(st.integers(a[0], a[2] - 1))
        x1 = draw(st.integers(x0 + 1, a[2]))
        y0 = draw(st.integers(a[1], a[3] - 1))
        y1 = draw(st.integers(y0 + 1, a[3]))
        b = [x0, y0, x1, y1]
    else:  # touch: b placed against a side or a corner of a
        w, h = draw(st.integers(1, 6)), draw(st.integers(1, 6))
        side = draw(st.sampled_from(["E", "N", "W", "S", "NE", "SW"]))
        off = draw(st.integers(-6, 8))
        if side == "E":
            b = [a[2], a[1] + off, a[2] + w, a[1] + off + h]
        elif side == "W":
            b = [a[0] - w, a[1] + off, a[0], a[1] + off + h]
        elif side == "N":
            b = [a[0] + off, a[3], a[0] + off + w, a[3] + h]
        elif side == "S":
            b = [a[0] + off, a[1] - h, a[0] + off + w, a[1]]
        elif side == "NE":
            b = [a[2], a[3], a[2] + w, a[3] + h]
        else:
            b = [a[0] - w, a[1] - h, a[0], a[1]]
    if draw(st.booleans()):
        a, b = b, a
    ra, rb = draw(st.sampled_from(REGIONS)), draw(st.sampled_from(REGIONS))
    if draw(st.integers(0, 2)) == 0:
        rb = ra
    pts = draw(st.lists(st.tuples(st.integers(-2, 30), st.integers(-2, 30)), min_size=1, max_size=3))
    move = [draw(st.integers(-6, 6)), draw(st.integers(-6, 6)), draw(st.sampled_from([0, 0, 2, 4]))] if draw(st.booleans()) else None
    return dict(unit=unit, a=a, b=b, ra=ra, rb=rb, fa=draw(st.booleans()), ha=draw(st.booleans()),
                fb=draw(st.booleans()), hb=draw(st.booleans()), pts=[list(p) for p in pts], move=move)


def run_pair(c):
    unit = Fr(c["unit"])
    eps = float(unit) / 2 ** 20
    preset = (c["a"][0] + c["b"][1]) % 3
    if preset:
        # another tolerance was in force before (an earlier design): the tolerance stated last is the one that counts
        Rectangle.set_epsilon(eps * 4096 if preset == 1 else eps / 4096)
    Rectangle.set_epsilon(eps, eps * eps)
    a = mk(c["a"], c["unit"], c["ra"], c["fa"], c["ha"])
    b = mk(c["b"], c["unit"], c["rb"], c["fb"], c["hb"])
    ea, eb = L.to_fr(c["a"], unit), L.to_fr(c["b"], unit)
    common = X.inter_area(ea, eb)
    cls = []
    # overlap area
    ab, ba = a.area_overlap(b), b.area_overlap(a)
    if Fr(ab) != common or Fr(ba) != common:
        raise Violation("area_overlap: a=%s b=%s gives %r / %r, common area is %s" % (ea, eb, ab, ba, common),
                        "area_overlap")
    if a.overlap(b) != (common > 0) or b.overlap(a) != (common > 0):
        raise Violation("overlap: a=%s b=%s overlap()=%r/%r, common area %s" % (ea, eb, a.overlap(b), b.overlap(a), common),
                        "overlap")
    # identical rectangles, also one rectangle object on both sides (a list in which an object occurs twice): the common region is itself
    for p, ep in ((a, ea), (b, eb)):
        if Fr(p.area_overlap(p)) != X.area(ep) or p.overlap(p) is not True or not p.is_inside(p) or (p * p) is None or frx(p * p) != ep:
            raise Violation("a rectangle %s against itself: area_overlap %r, overlap %r, is_inside %r, intersection %s" % (
                ep, p.area_overlap(p), p.overlap(p), p.is_inside(p), p * p), "self-pair")
    # intersection
    for p, q, ep, eq in ((a, b, ea, eb), (b, a, eb, ea)):
        i = p * q
        exists = common > 0 and p.region == q.region
        if (i is not None) != exists:
            raise Violation("__mul__: %s (%s) * %s (%s) gives %r but common area is %s" % (
                ep, p.region, eq, q.region, i, common), "mul-exists")
        if i is not None:
            ei = frx(i)
            if ei != X.inter(ep, eq):
                raise Violation("__mul__: %s * %s gives %s, common region is %s" % (ep, eq, ei, X.inter(ep, eq)),
                                "mul-geometry")
            if not (i.is_inside(p) and i.is_inside(q)):
                raise Violation("__mul__: intersection %s not reported inside both operands" % (ei,), "mul-inside")
            if (i.region, i.fixed, i.hard) != (p.region, p.fixed, p.hard):
                raise Violation("__mul__: intersection does not carry the left operand's region/fixed/hard", "mul-attrs")
            if i is p or i is q:
                raise Violation("__mul__: returns one of its operands", "mul-alias")
    if frx(a) != ea or frx(b) != eb:
        raise Violation("an operation modified its operands", "operands-mutated")
    # containment
    if a.is_inside(b) != X.inside(ea, eb) or b.is_inside(a) != X.inside(eb, ea):
        raise Violation("is_inside: a=%s b=%s gives %r/%r" % (ea, eb, a.is_inside(b), b.is_inside(a)), "is_inside")
    # containment is plain coordinate comparison - the distance tolerance belongs to touches() only: a copy of a pushed out of a
    # by half the tolerance (and by twice the tolerance) is no longer inside it, a copy left in place is
    for shift, exp in ((0.0, True), (eps / 2, False), (2 * eps, False)):
        a2 = a.duplicate()
        a2.center = Point(a.center.x + shift, a.center.y)
        if a2.is_inside(a) != exp:
            raise Violation("is_inside: a copy of %s shifted by %r (tolerance %r) is reported %s inside it" % (
                ea, shift, eps, "" if a2.is_inside(a) else "not"), "is_inside-tolerance")
    # bounding box
    bb = a.bounding_box
    if (Fr(bb.ll.x), Fr(bb.ll.y), Fr(bb.ur.x), Fr(bb.ur.y)) != ea:
        raise Violation("bounding_box of %s is %s" % (ea, bb), "bounding_box")
    # point membership (points on the half lattice)
    for px, py in c["pts"]:
        p = (Fr(px) * unit / 2, Fr(py) * unit / 2)
        exp = ea[0] <= p[0] <= ea[2] and ea[1] <= p[1] <= ea[3]
        if a.point_inside(Point(float(p[0]), float(p[1]))) != exp:
            raise Violation("point_inside: %s in %s reported %r" % (p, ea, not exp), "point_inside")
    # touching: gap on both axes <= eps
    gx = max(ea[0], eb[0]) - min(ea[2], eb[2])
    gy = max(ea[1], eb[1]) - min(ea[3], eb[3])
    gap0 = gx <= 0 and gy <= 0
    if a.touches(b) != gap0 or b.touches(a) != gap0:
        raise Violation("touches: a=%s b=%s (gaps %s,%s) reported %r/%r" % (ea, eb, gx, gy, a.touches(b), b.touches(a)),
                        "touches")
    if gap0 and (gx == 0 or gy == 0):
        cls.append("contact")
        if preset:
            cls.append("contact-after-the-tolerance-was-changed")
        # move b away from a by eps/2 (still touching) and 2*eps (not touching) along the contact axis
        for shift, exp in ((eps / 2, True), (2 * eps, False)):
            dx = (shift if eb[0] >= ea[2] else -shift if eb[2] <= ea[0] else 0.0) if gx == 0 else 0.0
            dy = (shift if eb[1] >= ea[3] else -shift if eb[3] <= ea[1] else 0.0) if gy == 0 and dx == 0.0 else 0.0
            if dx == 0.0 and dy == 0.0:
                continue
            b2 = b.duplicate()
            b2.center = Point(b.center.x + dx, b.center.y + dy)
            if a.touches(b2) != exp or b2.touches(a) != exp:
                raise Violation("touches: a=%s, b=%s moved away by %r: reported %r, expected %r (eps=%r)" % (
                    ea, eb, shift, a.touches(b2), exp, eps), "touches-eps")
    # thin common regions: b pushed INTO a by eps/2 and 2*eps along the contact axis.  The common area is positive, so the
    # intersection exists (regions permitting) however thin it is - the distance tolerance only belongs to touches()
    if gap0 and (gx == 0 or gy == 0):
        for shift in (eps / 2, 2 * eps):
            dx = (-shift if eb[0] >= ea[2] else shift if eb[2] <= ea[0] else 0.0) if gx == 0 else 0.0
            dy = (-shift if eb[1] >= ea[3] else shift if eb[3] <= ea[1] else 0.0) if gy == 0 and dx == 0.0 else 0.0
            if dx == 0.0 and dy == 0.0:
                continue
            b2 = b.duplicate()
            b2.center = Point(b.center.x + dx, b.center.y + dy)
            e2 = frx(b2)
            thin = X.inter_area(ea, e2)
            if thin <= 0:
                continue
            cls.append("thin-overlap")
            if Fr(a.area_overlap(b2)) != thin or Fr(b2.area_overlap(a)) != thin:
                raise Violation("area_overlap of a=%s and b=%s pushed %r into it: %r, common area %s" % (ea, eb, shift, a.area_overlap(b2), thin),
                                "area_overlap-thin")
            for p, q, ep, eq in ((a, b2, ea, e2), (b2, a, e2, ea)):
                i = p * q
                if (i is not None) != (p.region == q.region):
                    raise Violation("__mul__: %s * %s (common region %r thick, positive area %s, eps %r, regions %s/%s) gives %r" % (
                        ep, eq, shift, float(thin), eps, p.region, q.region, i), "mul-exists-thin")
                if i is not None and frx(i) != X.inter(ep, eq):
                    raise Violation("__mul__: thin intersection of %s and %s is %s" % (ep, eq, frx(i)), "mul-geometry-thin")
    # equality: same centre, shape and region
    if (a == b) != (ea == eb and a.region == b.region):
        raise Violation("__eq__: a=%s/%s b=%s/%s gives %r" % (ea, a.region, eb, b.region, a == b), "eq")
    # the same objects after being moved / resized IN PLACE (r.center.x += d, r.shape.w = w: FRAME itself moves rectangles
    # this way in recenter_rectangles and when mirroring): every answer must follow the new geometry
    mv = c.get("move")
    if mv:
        a.center.x += float(Fr(mv[0]) * unit)
        a.center.y += float(Fr(mv[1]) * unit)
        if mv[2]:
            b.shape.w = b.shape.w + float(Fr(mv[2]) * unit)
        ea2, eb2 = frx(a), frx(b)
        exp_a = (ea[0] + mv[0] * unit, ea[1] + mv[1] * unit, ea[2] + mv[0] * unit, ea[3] + mv[1] * unit)
        exp_b = (eb[0] - Fr(mv[2]) * unit / 2, eb[1], eb[2] + Fr(mv[2]) * unit / 2, eb[3])
        bb2 = a.bounding_box
        if ea2 != exp_a or eb2 != exp_b or (Fr(bb2.ll.x), Fr(bb2.ll.y), Fr(bb2.ur.x), Fr(bb2.ur.y)) != exp_a:
            raise Violation("after moving a rectangle in place by %s its geometry is %s / bounding box %s, expected %s" % (mv, ea2, bb2, exp_a),
                            "inplace-geometry")
        common2 = X.inter_area(exp_a, exp_b)
        if Fr(a.area_overlap(b)) != common2 or Fr(b.area_overlap(a)) != common2:
            raise Violation("after an in-place move (%s): area_overlap = %r, common area of %s and %s is %s" % (
                mv, a.area_overlap(b), exp_a, exp_b, common2), "inplace-area_overlap")
        i2 = a * b
        if (i2 is not None) != (common2 > 0 and a.region == b.region) or (i2 is not None and frx(i2) != X.inter(exp_a, exp_b)):
            raise Violation("after an in-place move (%s): a * b = %r, common region %s" % (mv, i2, X.inter(exp_a, exp_b)), "inplace-mul")
        if a.is_inside(b) != X.inside(exp_a, exp_b) or b.is_inside(a) != X.inside(exp_b, exp_a):
            raise Violation("after an in-place move (%s): is_inside wrong for %s, %s" % (mv, exp_a, exp_b), "inplace-is_inside")
        for px, py in c["pts"]:
            p = (Fr(px) * unit / 2, Fr(py) * unit / 2)
            if a.point_inside(Point(float(p[0]), float(p[1]))) != (exp_a[0] <= p[0] <= exp_a[2] and exp_a[1] <= p[1] <= exp_a[3]):
                raise Violation("after an in-place move (%s): point_inside(%s) wrong for %s" % (mv, p, exp_a), "inplace-point_inside")
        gx2 = max(exp_a[0], exp_b[0]) - min(exp_a[2], exp_b[2])
        gy2 = max(exp_a[1], exp_b[1]) - min(exp_a[3], exp_b[3])
        if a.touches(b) != (gx2 <= 0 and gy2 <= 0):
            raise Violation("after an in-place move (%s): touches wrong for %s, %s" % (mv, exp_a, exp_b), "inplace-touches")
        cls.append("moved-in-place")
    if common > 0:
        cls.append("crossing" if not (X.inside(ea, eb) or X.inside(eb, ea)) else "nested")
    if c["ra"] != c["rb"]:
        cls.append("regions-differ")
    return dict(nt=gap0, cls=cls)


@st.composite
def split_case(draw):
    unit = draw(L.dyadic_unit())
    r = draw(L.int_rect(24, 24, 16, 16))
    region = draw(st.sampled_from(REGIONS))
    # cut positions in half units relative to the lower-left corner; None = default (halve)
    w2, h2 = 2 * (r[2] - r[0]), 2 * (r[3] - r[1])
    cx = draw(st.one_of(st.none(), st.integers(1, w2 - 1)))
    cy = draw(st.one_of(st.none(), st.integers(1, h2 - 1)))
    # probe positions in units / 2^k from the lower-left corner; fine resolutions put the probe next to an edge (slivers of
    # 0.1 % ... 5 % of the rectangle), from either end
    pk = draw(st.sampled_from([1, 1, 6, 10]))
    if pk == 1:
        probe = draw(st.integers(-3, w2 + 3)), draw(st.integers(-3, h2 + 3))
    else:
        full = (r[2] - r[0]) * 2 ** pk, (r[3] - r[1]) * 2 ** pk
        probe = tuple(draw(st.integers(-2, 40)) if draw(st.booleans()) else f - draw(st.integers(-2, 40)) for f in full)
    ratio = draw(st.sampled_from([None, 0.01, 0.1, 0.25, 0.45, 0.5, 0, 0.0, 0.001, 0.03, 1]))
    grid = [draw(st.integers(1, 6)), draw(st.integers(1, 6))]
    return dict(unit=unit, r=r, region=region, fixed=draw(st.booleans()), hard=draw(st.booleans()),
                cx=cx, cy=cy, probe=list(probe), probe_k=pk, ratio=ratio, grid=grid)


def _attrs(p):
    return (p.region, p.fixed, p.hard)


def _check_tiling(what, pieces, whole_fr, whole, exact=True):
    ep = [frx(p) for p in pieces]
    if exact:
        if not X.tiles_exactly(ep, whole_fr):
            raise Violation("%s: pieces %s do not tile %s exactly" % (what, ep, whole_fr), what + "-tiling")
    else:
        tol = Fr(1, 10 ** 12) * max(whole_fr[2], whole_fr[3])
        if not all(X.inside(p, whole_fr, tol) for p in ep):
            raise Violation("%s: a piece leaves the rectangle %s: %s" % (what, whole_fr, ep), what + "-tiling")
        ok, pr = X.pairwise_disjoint(ep, tol * max(whole_fr[2], whole_fr[3]))
        if not ok:
            raise Violation("%s: pieces overlap: %s" % (what, pr), what + "-tiling")
        if abs(sum(X.area(p) for p in ep) - X.area(whole_fr)) > tol * max(whole_fr[2], whole_fr[3]):
            raise Violation("%s: areas do not sum up for %s" % (what, whole_fr), what + "-tiling")
    for p in pieces:
        if _attrs(p) != _attrs(whole):
            raise Violation("%s: piece does not inherit region/fixed/hard" % what, what + "-attrs")
        if p is whole:
            raise Violation("%s: returns the original object" % what, what + "-alias")


def run_split(c):
    unit = Fr(c["unit"])
    eps = float(unit) / 2 ** 20
    Rectangle.set_epsilon(eps, eps * eps)
    late = (c["fixed"] or c["hard"]) and (c["grid"][0] + c["grid"][1]) % 2 == 0
    if late:
        # the rectangle is built plain and flagged afterwards through the setters (as cells of fixed modules are when an allocation is
        # initialised): its pieces inherit the attributes it has NOW
        r = mk(c["r"], c["unit"], c["region"], False, False)
        if c["fixed"]:
            r.fixed = True
        if c["hard"]:
            r.hard = True
    else:
        r = mk(c["r"], c["unit"], c["region"], c["fixed"], c["hard"])
    er = L.to_fr(c["r"], unit)
    w, h = er[2] - er[0], er[3] - er[1]
    cls = []

    def call(what, f, *a):
        try:
            return f(*a)
        except Exception as e:  # valid arguments: must not raise
            raise Violation("%s%r on %s raised %s: %s" % (what, a, er, type(e).__name__, e), what + "-raised")

    # duplicate
    d = call("duplicate", r.duplicate)
    if frx(d) != er or _attrs(d) != _attrs(r) or d is r:
        raise Violation("duplicate: differs from the original", "duplicate")
    # cut at coordinate / halve
    for what, f, rel, lo, axis in (("split_horizontal", r.split_horizontal, c["cx"], er[0], 0),
                                   ("split_vertical", r.split_vertical, c["cy"], er[1], 1)):
        if rel is None:
            pieces = call(what, f) if c["probe"][0] % 2 else call(what, f, -1.0)
            cut = (er[axis] + er[axis + 2]) / 2
        else:
            cut = lo + Fr(rel) * unit / 2
            if cut <= 0:
                continue
            pieces = call(what, f, float(cut))
        _check_tiling(what, pieces, er, r)
        ep = sorted(frx(p) for p in pieces)
        if len(ep) != 2 or ep[0][axis + 2] != cut or ep[1][axis] != cut:
            raise Violation("%s at %s of %s: pieces %s do not meet at the cut" % (what, cut, er, ep), what + "-cut")
    # split(): halves the longer side
    pieces = call("split", r.split)
    _check_tiling("split", pieces, er, r)
    ep = sorted(frx(p) for p in pieces)
    horiz = ep[0][2] == ep[1][0] and ep[0][2] == (er[0] + er[2]) / 2  # cut through the width
    vert = ep[0][3] == ep[1][1] and ep[0][3] == (er[1] + er[3]) / 2
    if len(ep) != 2 or not ((horiz and w >= h) or (vert and h >= w)):
        raise Violation("split of %s (w=%s, h=%s) gives %s: not a halving of the longer side" % (er, w, h, ep), "split-longer")
    cls.append("square" if w == h else "oblong")
    if late:
        cls.append("flagged-fixed-or-hard-after-construction")
    # grid
    nr, nc = c["grid"]
    g = call("rectangle_grid", r.rectangle_grid, nr, nc)
    if len(g) != nr * nc:
        raise Violation("rectangle_grid(%d,%d) returned %d pieces" % (nr, nc, len(g)), "grid-count")
    pow2 = (nr & (nr - 1)) == 0 and (nc & (nc - 1)) == 0
    _check_tiling("rectangle_grid", g, er, r, exact=pow2)
    tol = Fr(1, 10 ** 12) * max(w, h)
    for p in g:
        e = frx(p)
        if abs((e[2] - e[0]) - w / nc) > tol or abs((e[3] - e[1]) - h / nr) > tol:
            raise Violation("rectangle_grid(%d,%d) of %s: piece %s has the wrong size" % (nr, nc, er, e), "grid-size")
    # every grid cell centre hit exactly once
    seen = set()
    for p in g:
        e = frx(p)
        i = int((((e[0] + e[2]) / 2 - er[0]) / (w / nc)))
        j = int((((e[1] + e[3]) / 2 - er[1]) / (h / nr)))
        seen.add((i, j))
    if len(seen) != nr * nc:
        raise Violation("rectangle_grid(%d,%d) of %s: pieces do not form the grid" % (nr, nc, er), "grid-cells")
    cls.append("grid-pow2" if pow2 else "grid-inexact")
    # cuttable
    ratio = c["ratio"]
    rr = Fr(0.01) if ratio is None else Fr(ratio)
    for what, f, rel, lo, hi, other in (("x_cuttable", r.x_cuttable, c["probe"][0], er[0], er[2], h),
                                        ("y_cuttable", r.y_cuttable, c["probe"][1], er[1], er[3], w)):
        pos = lo + Fr(rel) * unit / 2 ** c.get("probe_k", 1)
        res = call(what, f, float(pos)) if ratio is None else call(what, f, float(pos), ratio)
        strictly = lo < pos < hi
        thin = min(pos - lo, hi - pos)
        if res and not strictly:
            raise Violation("%s(%s) on %s is True but the coordinate is not strictly inside" % (what, pos, er),
                            what + "-outside")
        if strictly and thin > rr * max(w, h) * (1 + Fr(1, 10 ** 9)) and not res:
            raise Violation("%s(%s, ratio=%s) on %s is False although the thinner piece %s exceeds ratio x either side" % (
                what, pos, ratio, er, thin), what + "-refused")
        cls.append("cut-inside" if strictly else "cut-outside")
        if strictly and thin <= Fr(1, 100) * max(w, h):
            cls.append("cut-leaves-a-thin-piece")
            if rr == 0:
                cls.append("thin-piece-with-ratio-0")
    if frx(r) != er:
        raise Violation("an operation modified the rectangle", "operand-mutated")
    # the rectangle is moved in place and split again
    r.center.x += float(unit) * 3
    r.shape.h = r.shape.h + float(unit) * 2
    er2 = (er[0] + 3 * unit, er[1] - unit, er[2] + 3 * unit, er[3] + unit)
    if frx(r) != er2:
        raise Violation("in-place move/resize not reflected: %s, expected %s" % (frx(r), er2), "inplace-geometry")
    pieces = call("split_horizontal (after an in-place move)", r.split_horizontal)
    _check_tiling("split_horizontal-after-move", pieces, er2, r)
    g2 = call("rectangle_grid (after an in-place move)", r.rectangle_grid, 2, 2)
    _check_tiling("rectangle_grid-after-move", g2, er2, r)
    mid = float((er2[0] + er2[2]) / 2)
    if not r.x_cuttable(mid) or r.x_cuttable(float(er[0]) - float(unit)):
        raise Violation("x_cuttable after an in-place move of %s to %s is wrong" % (er, er2), "inplace-cuttable")
    return dict(nt=True, cls=cls)


def subchecks():
    return [
        Sub("pairs", run_pair, strategy=pair_case(), n_quick=40000, n_thorough=800000, fuzz_thorough=16000,
            required=("contact", "crossing", "nested", "regions-differ", "thin-overlap", "moved-in-place", "contact-after-the-tolerance-was-changed")),
        Sub("splits", run_split, strategy=split_case(), n_quick=30000, n_thorough=600000, fuzz_thorough=12000,
            required=("square", "oblong", "grid-pow2", "grid-inexact", "cut-inside", "cut-outside", "cut-leaves-a-thin-piece", "thin-piece-with-ratio-0",
                      "flagged-fixed-or-hard-after-construction")),
    ]
