"""C11  Die refinement keeps the tiling, reaches the count and bounds the aspect ratio (Die.split_refinable_regions, initial_grid)."""
from fractions import Fraction as Fr

from hypothesis import strategies as st

from frame.die.die import Die
from frame.netlist.netlist import Netlist
from gen import design as D
from vfw import exact as X
from vfw.core import Sub, Violation

PROP = "C11"
RULE = ("split: generated die (lattice, blockages / specialised regions / fixed netlist rectangles) with at least one refinable "
        "region, aspect-ratio limit r in [1.42, 6] (half of the mass in [1.42, 2)), count n in 1..60; oracle on the float results "
        "taken as exact reals: count >= n, every new region inside exactly one former refinable region with the same tag, children "
        "of one former region disjoint with areas summing to it, every ratio <= r, blockages and fixed regions the same objects "
        "with unchanged geometry. grid: empty die, rows x cols in 1..8 x 1..8 (1 x 1, the grid of one cell, included). "
        "non-trivial = the call split at least one region; distinct = distinct case.")
ASSUMPTIONS = [
    "dies without any refinable region are outside the domain (no count can be reached)",
    "relative tolerance 1e-9 on containment and area sums, 1e-12 on the ratio bound",
    "initial_grid(1, 1) is a grid shape like any other: the code accepts it (rows + cols > 1) and leaves the single region",
]
_i = st.integers
# (tiny and huge units: the refinement must not depend on the absolute scale of the die)
SPLIT_UNITS = D.UNITS_EXACT + D.UNITS_DEC + ["0.0001", "0.0001", "0.001", "0.00001", "1000", "250000"]


def mkdie(c):
    nl = Netlist(D.fixed_netlist_tree(c)) if c["fixed"] else None
    return Die(D.die_tree(c), nl) if nl is not None else Die(D.die_tree(c))


def snapshot(rs):
    return [(id(r), X.of_frame(r), r.region, r.fixed) for r in rs]


def check_children(before, after, tol, atol, what):
    """before/after: lists of (exact rect, tag). Every new region inside exactly one former one with the same tag; tiles it."""
    kids = {i: [] for i in range(len(before))}
    for e, tag in after:
        homes = [i for i, (b, btag) in enumerate(before) if X.inside(e, b, tol)]
        if len(homes) != 1:
            # a region may coincide with the boundary of two parents only if it has zero area; otherwise it is an error
            raise Violation("%s: region %s (%s) lies inside %d former refinable regions" % (
                what, tuple(float(v) for v in e), tag, len(homes)), "not-inside-one-parent")
        i = homes[0]
        if before[i][1] != tag:
            raise Violation("%s: region %s carries tag %r, the region it was cut from has %r" % (
                what, tuple(float(v) for v in e), tag, before[i][1]), "tag-changed")
        kids[i].append(e)
    for i, (b, tag) in enumerate(before):
        ks = kids[i]
        if not ks:
            raise Violation("%s: former region %s is no longer covered" % (what, tuple(float(v) for v in b)), "parent-lost")
        ok, pr = X.pairwise_disjoint(ks, atol)
        if not ok:
            raise Violation("%s: two pieces of one region overlap: %s" % (what, pr), "children-overlap")
        if abs(sum((X.area(k) for k in ks), Fr(0)) - X.area(b)) > atol:
            raise Violation("%s: pieces of region %s have total area %s, not %s" % (
                what, tuple(float(v) for v in b), float(sum(X.area(k) for k in ks)), float(X.area(b))), "children-area")


def run_split(c):
    try:
        die = mkdie(c)
    except Exception as e:
        raise Violation("valid die rejected: %s: %s" % (type(e).__name__, e), "die-rejected")
    refinable0, fixed0 = die.floorplanning_rectangles()
    if not refinable0:
        return dict(nt=False, cls=["no-refinable-region"])
    before = [(X.of_frame(r), r.region) for r in refinable0]
    r, n = float(c["r"]), int(c["n"])
    released = False
    if c.get("release") and die.netlist is not None:
        # the netlist goes on living after the die was built: its fixed modules are released (as a later stage may do); the die's
        # fixed regions are what they were when it was built, before and after the refinement
        for m in die.netlist.modules:
            if m.is_fixed and not m.is_terminal:
                m.is_fixed = False
                released = True
    block0, fix0 = snapshot(die.blockages), snapshot(die.fixed_regions)  # (taken after the release: the rectangle objects are shared)
    rej = c.get("rejected_first")
    if rej:
        # a request outside the admissible range (r <= sqrt 2, or n < 1) comes first and is refused: the die is as before
        try:
            die.split_refinable_regions(float(rej[0]), int(rej[1]))
            return dict(nt=False, cls=["inadmissible-request-accepted"])  # not refused: whatever it did is outside the property
        except Exception:
            pass
        # (what the refused request left behind is judged by the admissible request that follows: it must still tile the area
        # the refinable regions covered at the start, reach the count and leave blockages and fixed regions alone)
    try:
        die.split_refinable_regions(r, n)
    except Exception as e:
        raise Violation("split_refinable_regions(%r, %d) raised %s: %s on %s" % (r, n, type(e).__name__, e, D.die_text(c)), "raised")
    refinable1, fixed1 = die.floorplanning_rectangles()
    what = "split_refinable_regions(%r, %d) on %s" % (r, n, D.die_text(c).replace("\n", " "))
    if len(refinable1) < n:
        raise Violation("%s: only %d refinable regions" % (what, len(refinable1)), "count")
    W = max(Fr(die.width), Fr(die.height))
    tol, atol = W / 10 ** 9, W * W / 10 ** 9
    after = [(X.of_frame(x), x.region) for x in refinable1]
    check_children(before, after, tol, atol, what)
    for x in refinable1:
        e = X.of_frame(x)
        w, h = e[2] - e[0], e[3] - e[1]
        ratio = max(w / h, h / w)
        if ratio > Fr(r) * (1 + Fr(1, 10 ** 12)):
            raise Violation("%s: region %s has aspect ratio %s > %r" % (what, x, float(ratio), r), "ratio")
        if x.fixed:
            raise Violation("%s: a refinable region is flagged fixed" % what, "fixed-flag")
    if snapshot(die.blockages) != block0 or snapshot(die.fixed_regions) != fix0 or snapshot(fixed1) != fix0:
        raise Violation("%s: blockages or fixed regions were touched" % what, "blockage-or-fixed-touched")
    split = len(refinable1) > len(refinable0)
    # phase 2 is the largest-first loop: it runs when splitting by ratio alone did not reach n
    cls = []
    if r < 2:
        cls.append("r<2")
    if any(rr.region not in ("_",) for rr in refinable0):
        cls.append("specialised")
    if Fr(c["unit"]) <= Fr(1, 1000):
        cls.append("tiny-die")
    if split:
        cls.append("split")
    if rej:
        cls.append("after-a-refused-request")
    if released:
        cls.append("fixed-modules-released-after-the-die-was-built")
    if split and r < 2 and n > len(refinable0):
        cls.append("count-driven-with-r<2")
    if any(max((e[2] - e[0]) / (e[3] - e[1]), (e[3] - e[1]) / (e[2] - e[0])) > 64 * Fr(r) for e, _ in before):
        cls.append("region-needing-7+-halvings")
    return dict(nt=split, cls=cls)


def run_grid(c):
    u = Fr(c["unit"])
    W, H = c["W"] * u, c["H"] * u
    try:
        die = Die("%sx%s" % (X.dec(W), X.dec(H))) if c["form"] == "wxh" else Die({"width": X.num(W), "height": X.num(H)})
    except Exception as e:
        raise Violation("empty die rejected: %s" % e, "die-rejected")
    rows, cols = c["rows"], c["cols"]
    before = [(X.of_frame(r), r.region) for r in die.floorplanning_rectangles()[0]]
    try:
        die.initial_grid(rows, cols)
    except Exception as e:
        raise Violation("initial_grid(%d, %d) on an empty %s x %s die raised %s: %s" % (rows, cols, W, H, type(e).__name__, e), "raised")
    ref, fixed = die.floorplanning_rectangles()
    what = "initial_grid(%d, %d) on %s x %s" % (rows, cols, X.dec(W), X.dec(H))
    if len(ref) != rows * cols:
        raise Violation("%s: %d refinable regions" % (what, len(ref)), "count")
    S = max(W, H)
    tol, atol = S / 10 ** 9, S * S / 10 ** 9
    check_children(before, [(X.of_frame(x), x.region) for x in ref], tol, atol, what)
    for x in ref:
        e = X.of_frame(x)
        if abs((e[2] - e[0]) - W / cols) > tol or abs((e[3] - e[1]) - H / rows) > tol:
            raise Violation("%s: cell %s is not %s x %s" % (what, x, float(W / cols), float(H / rows)), "cell-size")
    if fixed or die.blockages:
        raise Violation("%s: fixed regions or blockages appeared" % what, "blockage-or-fixed-touched")
    return dict(nt=True, cls=["rows!=cols"] if rows != cols else ["square-grid"] + (["grid-of-one-cell"] if rows == 1 else []))


@st.composite
def split_s(draw):
    c = draw(D.die_case(max_regions=5, units=SPLIT_UNITS))
    if draw(_i(0, 7)) == 0:
        # a long thin die (or a die whose free area is a long thin strip): many successive halvings are needed
        a, b = draw(_i(1, 2)), draw(_i(100, 600))
        c = dict(unit=draw(st.sampled_from(["1", "0.5", "0.1", "2"])), W=a, H=b, regions=[], fixed=[])
        if draw(st.booleans()):
            c["W"], c["H"] = b, a
        elif draw(st.booleans()):
            c["W"] = a + 40
            c["regions"] = [[a, 0, a + 40, b, draw(st.sampled_from(["#", "A"]))]]
    if draw(st.booleans()):
        c["r"] = draw(st.sampled_from([1.42, 1.42, 1.45, 1.5, 1.6, 1.75, 1.9, 1.99, 1.4151]))
    else:
        c["r"] = draw(st.sampled_from([2, 2.0, 2.5, 3, 4.2, 6, 2.01]))
    c["n"] = draw(st.sampled_from([1, 1, 2, 2, 3, 4, 5, 7, 8, 12, 16, 23, 37, 60]))
    if draw(_i(0, 3)) == 0:
        c["rejected_first"] = draw(st.sampled_from([[1.3, 6], [1.0, 2], [1.41, 4], [2, 0], [3, -1], [0.5, 3]]))
    c["release"] = draw(_i(0, 2)) == 0
    return c


@st.composite
def grid_s(draw):
    c = draw(D.die_case(max_regions=0, allow_fixed=False))
    rows, cols = draw(_i(1, 8)), draw(_i(1, 8))
    if draw(_i(0, 9)) == 0:
        rows = cols = 1
    c.update(rows=rows, cols=cols, form=draw(st.sampled_from(["wxh", "tree"])))
    return c


def subchecks():
    return [
        Sub("split", run_split, strategy=split_s(), n_quick=12000, n_thorough=300000, fuzz_thorough=6000,
            required=("r<2", "specialised", "split", "count-driven-with-r<2", "tiny-die", "after-a-refused-request", "region-needing-7+-halvings",
                      "fixed-modules-released-after-the-die-was-built")),
        Sub("grid", run_grid, strategy=grid_s(), n_quick=3000, n_thorough=60000, fuzz_thorough=1500, required=("rows!=cols", "square-grid", "grid-of-one-cell")),
    ]
