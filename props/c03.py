"""C03  Initial allocation equals the exact geometric overlap (create_initial_allocation)."""
from fractions import Fraction as Fr

import mpmath
from hypothesis import strategies as st

from frame.allocation.allocation import create_initial_allocation
from frame.die.die import Die
from frame.netlist.netlist import Netlist
from gen import design as D
from gen import lattice as L
from gen.stog import stog_rects
from vfw import exact as X
from vfw.core import Sub, Violation

PROP = "C03"
RULE = ("a die (lattice, blockages / specialised / fixed regions, at least one refinable region), optionally refined with "
        "split_refinable_regions(r, n) or initial_grid(rows, cols), and a compatible netlist: fixed modules = the die's fixed "
        "rectangles, 1-4 movable modules that are soft with disjoint rectangles, soft with centre and area only (a square; the area as one number or per region), or "
        "hard; modules overlap each other, blockages and fixed cells and may stick out of the die, but each overlaps some "
        "refinable cell; include_area_zero both ways.  Oracle: expected[cell][module] = sum of exact intersection areas / cell "
        "area from the source model (square side from 40-digit sqrt).  non-trivial = some module overlaps >= 2 cells with a "
        "ratio strictly between 0 and 1; distinct = distinct case.")
ASSUMPTIONS = [
    "every movable module overlaps at least one refinable cell by construction (a module with zero allocated area is outside the property's quantifier)",
    "ratios compared with absolute tolerance 1e-9; 'not listed' is asserted only when the module's shape is at least one lattice step away from the cell",
    "a soft module's overlap with a fixed cell is not counted: the statement gives the fixed module full ownership of its cells",
    "the cells themselves (die decomposition / refinement) are taken from the die as built; their correctness is C01 / C11",
]
_i = st.integers
mpmath.mp.dps = 45


def module_rects(m, unit):
    """exact rectangles of a movable module of the case"""
    u = Fr(unit)
    if m["rects"]:
        return [L.to_fr(r, unit) for r in m["rects"]]
    area = m["area"] * u * u
    s = mpmath.sqrt(mpmath.mpf(area.numerator) / mpmath.mpf(area.denominator))
    side = Fr(int(s * mpmath.mpf(10) ** 40), 10 ** 40)
    cx, cy = m["center"][0] * u / 2, m["center"][1] * u / 2
    return [(cx - side / 2, cy - side / 2, cx + side / 2, cy + side / 2)]


def netlist_tree(c):
    unit = c["die"]["unit"]
    u = Fr(unit)
    mods = {}
    for k, rl in enumerate(c["die"]["fixed"]):
        mods["F%d" % k] = {"fixed": True, "rectangles": [D.rect_entry(r, unit) for r in rl]}
    for m in c["modules"]:
        d = {}
        if m["kind"] == "hard" and m.get("released"):
            d["fixed"] = True  # declared fixed, released through Module.is_fixed = False before the die is built
        elif m["kind"] == "hard":
            d["hard"] = True
        else:
            d["area"] = X.num(m["area"] * u * u)
            if m.get("split"):
                # the same area given per region (ground and / or specialised regions of the die)
                tot = sum(k for _, k in m["split"])
                d["area"] = {t: X.num(m["area"] * u * u * k / tot) for t, k in m["split"]}
        if m.get("withdrawn"):
            # declared with a rectangle that is withdrawn after loading: the module is then a soft module without rectangles again
            d["rectangles"] = [D.rect_entry(m["withdrawn"][:4], unit)]
        elif m["rects"]:
            d["rectangles"] = [D.rect_entry(r, unit) for r in m["rects"]]
        else:
            d["center"] = [X.num(m["center"][0] * u / 2), X.num(m["center"][1] * u / 2)]
        mods[m["name"]] = d
    # fixed modules first or last: order must not matter
    if c.get("fixed_last"):
        mods = dict([kv for kv in mods.items() if not kv[0].startswith("F")] + [kv for kv in mods.items() if kv[0].startswith("F")])
    return {"Modules": mods, "Nets": []}


def release(nl, c):
    """modules declared fixed in the document and released through the setter before the die is built"""
    for m in c["modules"]:
        if m.get("released"):
            nl.get_module(m["name"]).is_fixed = False
        if m.get("withdrawn"):
            if m["withdrawn"][4]:
                nl.assign_rectangles({m["name"]: []})
            else:
                nl.get_module(m["name"]).clear_rectangles()


def dist(a, b):
    dx = max(a[0] - b[2], b[0] - a[2], 0)
    dy = max(a[1] - b[3], b[1] - a[3], 0)
    return max(dx, dy)


def run_alloc(c):
    dc = c["die"]
    unit = dc["unit"]
    u = Fr(unit)
    tree, dtree = netlist_tree(c), D.die_tree(dc)

    try:
        nl = Netlist(tree)
        release(nl, c)
        if c.get("jitter"):
            # an earlier stage perturbed the centres IN PLACE (the force stage's add_noise does): the shape of a module with rectangles
            # is its rectangles, wherever its centre attribute has drifted to
            for m in nl.modules:
                if m.num_rectangles > 0 and m.center is not None:
                    m.center.x += float(u) * 0.375
                    m.center.y -= float(u) * 0.125
        die = Die(dtree, nl)
    except Exception as e:
        # the generated designs are compatible by construction (fixed modules on free die area, everything else movable); on the
        # unchanged tree none is ever rejected.  Without a die there is no initial allocation at all.
        raise Violation("a compatible netlist and die cannot be loaded: %s: %s\n%s" % (type(e).__name__, e, c), "design-rejected")
    if c.get("reuse"):
        # the same parsed descriptions are used again (e.g. one netlist per die refinement): the second design is the design
        if tree != netlist_tree(c) or dtree != D.die_tree(dc):
            raise Violation("loading the design altered the caller's description: netlist now %r" % (tree,), "description-altered")
        try:
            nl = Netlist(tree)
            release(nl, c)
            die = Die(dtree, nl)
        except Exception as e:
            raise Violation("the same descriptions are rejected when loaded a second time: %s: %s" % (type(e).__name__, e), "second-load-rejected")
    ref = c["refine"]
    if not die.floorplanning_rectangles()[0]:
        return dict(nt=False, cls=["no-refinable-cell"])
    try:
        if ref and ref[0] == "split":
            die.split_refinable_regions(float(ref[1]), int(ref[2]))
        elif ref and ref[0] == "grid":
            die.initial_grid(int(ref[1]), int(ref[2]))
    except Exception as e:
        raise RuntimeError("refinement of the die failed in the harness: %s" % e)
    refinable, fixed_regions = die.floorplanning_rectangles()
    if not refinable:
        return dict(nt=False, cls=["no-refinable-cell"])
    cells = [X.of_frame(r) for r in refinable]
    shapes = {m["name"]: module_rects(m, unit) for m in c["modules"]}
    moved = False
    if c.get("moves"):
        # the placement tools move hard modules by assigning a new centre and calling recenter_rectangles(), which
        # shifts the rectangles IN PLACE; optionally an allocation was already computed before the move
        from frame.geometry.geometry import Point
        if c.get("alloc_before_move"):
            try:
                create_initial_allocation(die, False)
            except Exception:
                pass
        for name, (dx, dy) in c["moves"].items():
            mod = nl.get_module(name)
            if not (mod.is_hard and not mod.is_fixed):
                continue
            rs = shapes[name]
            A = sum(X.area(r) for r in rs)
            cx = sum(X.area(r) * (r[0] + r[2]) / 2 for r in rs) / A
            cy = sum(X.area(r) * (r[1] + r[3]) / 2 for r in rs) / A
            nx, ny = cx + dx * u, cy + dy * u
            if min(r[0] + dx * u for r in rs) < 0 or min(r[1] + dy * u for r in rs) < 0:
                continue
            mod.center = Point(float(nx), float(ny))
            mod.recenter_rectangles()
            shapes[name] = [X.of_frame(r) for r in mod.rectangles]
            moved = True
    # the domain: every movable module overlaps some refinable cell
    for name, rs in shapes.items():
        if sum((X.inter_area(cell, r) for cell in cells for r in rs), Fr(0)) < u * u / 16:
            return dict(nt=False, cls=["module-off-the-cells"])
    inc0 = bool(c["include_zero"])
    try:
        alloc = create_initial_allocation(die, inc0)
    except Exception as e:
        raise Violation("create_initial_allocation(include_area_zero=%s) raised %s: %s\ndie: %s refine: %s\nmodules: %s" % (
            inc0, type(e).__name__, str(e)[:300], D.die_text(dc).replace("\n", " "), ref, c["modules"]), "raised")
    W, H = dc["W"] * u, dc["H"] * u
    tol = Fr(1, 10 ** 9)
    fixed_exact = D.exact_fixed(dc)
    fixed_names = {}
    for k, rl in enumerate(dc["fixed"]):
        for r in rl:
            fixed_names[L.to_fr(r, unit)] = "F%d" % k
    got_fixed = []
    seen_cells = []
    per_module = {}
    for a in alloc.allocations:
        e = X.of_frame(a.rect)
        if a.rect.fixed:
            got_fixed.append(e)
            owner = next((n for fe, n in fixed_names.items() if all(abs(x - y) <= tol * max(W, H) for x, y in zip(fe, e))), None)
            if owner is None:
                raise Violation("cell %s is flagged fixed but is not a rectangle of a fixed module" % (fl(e),), "fixed-cell-unknown")
            if dict(a.alloc) != {owner: 1.0}:
                raise Violation("fixed cell %s of %s has map %s instead of {%s: 1.0}" % (fl(e), owner, a.alloc, owner), "fixed-cell-map")
            continue
        k = next((i for i, cell in enumerate(cells) if cell == e), None)
        if k is None:
            raise Violation("cell %s of the allocation is not a refinable region of the die" % (fl(e),), "cell-unknown")
        seen_cells.append(k)
        for name, rs in shapes.items():
            exp = sum((X.inter_area(e, r) for r in rs), Fr(0)) / X.area(e)
            got = a.alloc.get(name)
            if exp > tol:
                if got is None or abs(Fr(got) - exp) > tol:
                    raise Violation("cell %s, module %s: ratio %r, exact overlap fraction is %s\nmodule rectangles %s" % (
                        fl(e), name, got, float(exp), [fl(r) for r in rs]), "ratio")
                per_module.setdefault(name, []).append(exp)
            elif exp == 0 and min(dist(e, r) for r in rs) >= u:
                if inc0:
                    if got is None or got != 0:
                        raise Violation("cell %s, module %s (does not touch it): entry %r although zero entries were requested" % (
                            fl(e), name, got), "zero-entry-missing")
                elif got is not None:
                    raise Violation("cell %s lists module %s (ratio %r) which does not cover any part of it" % (fl(e), name, got),
                                    "listed-without-overlap")
            elif got is not None and abs(Fr(got) - exp) > tol:
                raise Violation("cell %s, module %s: ratio %r, exact overlap fraction is %s" % (fl(e), name, got, float(exp)), "ratio")
        if inc0:
            # zero entries were requested: a fixed module is a module like any other, it covers nothing of a refinable cell
            for name in fixed_names.values():
                if a.alloc.get(name) is None or abs(a.alloc[name]) > tol:
                    raise Violation("refinable cell %s, fixed module %s: entry %r although zero entries were requested (the movable modules "
                                    "have theirs: %s)" % (fl(e), name, a.alloc.get(name), dict(a.alloc)), "zero-entry-missing")
        for name, got in a.alloc.items():
            if name.startswith("F") and name in fixed_names.values() and got > tol:
                raise Violation("refinable cell %s is claimed by fixed module %s with ratio %r" % (fl(e), name, got), "fixed-on-refinable")
            if name not in shapes and name not in fixed_names.values():
                raise Violation("cell %s lists unknown module %s" % (fl(e), name), "unknown-module")
    if sorted(seen_cells) != list(range(len(cells))):
        raise Violation("the allocation has %d refinable cells, the die %d" % (len(seen_cells), len(cells)), "cells-missing")
    if sorted(got_fixed) != sorted(X.rect_cs(*[X.num(v) for v in L.csr(r, unit)]) for rl in dc["fixed"] for r in rl):
        raise Violation("fixed cells %s, fixed modules occupy %s" % ([fl(e) for e in got_fixed], [fl(e) for e in fixed_exact]), "fixed-cells")
    # allocated area of every module
    atol = W * H / 10 ** 9
    for name, rs in shapes.items():
        exp_area = sum((X.inter_area(cell, r) for cell in cells for r in rs), Fr(0))
        try:
            got = alloc.area(name)
        except Exception as ex:
            raise Violation("area(%s) raised %s although the module covers %s of refinable cells" % (name, type(ex).__name__, float(exp_area)), "area-raised")
        if abs(Fr(got) - exp_area) > atol:
            raise Violation("area(%s) = %r, its shape covers %s of the refinable cells" % (name, got, float(exp_area)), "module-area")
    for k, rl in enumerate(dc["fixed"]):
        own = sum((X.area(L.to_fr(r, unit)) for r in rl), Fr(0))
        if abs(Fr(alloc.area("F%d" % k)) - own) > atol:
            raise Violation("area(F%d) = %r, its rectangles have area %s" % (k, alloc.area("F%d" % k), float(own)), "fixed-area")
    cls = ["descriptions-loaded-twice"] if c.get("reuse") else []
    if c.get("jitter") and (dc["fixed"] or any(m["rects"] for m in c["modules"])):
        cls.append("centres-of-modules-with-rectangles-perturbed-in-place")
    if any(m.get("split") and not m["rects"] and len(m["split"]) > 1 and m["split"][0][0] == "_" for m in c["modules"]):
        cls.append("square-of-an-area-split-between-ground-and-other-regions")
    if any(m.get("withdrawn") for m in c["modules"]):
        cls.append("rectangles-withdrawn-after-loading")
    if any(m.get("released") for m in c["modules"]):
        cls.append("fixed-module-released-before-the-die-was-built")
    if dc["fixed"]:
        cls.append("with-fixed")
    if ref:
        cls.append("refined-" + ref[0])
    if Fr(unit) <= Fr(1, 1000):
        cls.append("tiny-die")
    if inc0:
        cls.append("include-zero")
    if any(not m["rects"] for m in c["modules"]):
        cls.append("square-from-centre")
    if any(m["kind"] == "hard" for m in c["modules"]):
        cls.append("hard-module")
    if moved:
        cls.append("hard-module-recentred-in-place")
    whole = (Fr(0), Fr(0), W, H)
    if any(not X.inside(r, whole) for rs in shapes.values() for r in rs):
        cls.append("sticks-out")
    if any(X.inter_area(r, f) > 0 for rs in shapes.values() for r in rs for f in fixed_exact):
        cls.append("overlaps-fixed-cell")
    if any(any(abs(sum((X.inter_area(cell, r) for r in rs), Fr(0)) - X.area(cell)) == 0 for cell in cells) for rs in shapes.values()):
        cls.append("covers-a-cell-completely")
    multi = any(len(v) >= 2 and any(tol < x < 1 - tol for x in v) for v in per_module.values())
    return dict(nt=multi, cls=cls)


def fl(e):
    return tuple(float(v) for v in e)


@st.composite
def case_s(draw):
    empty = draw(_i(0, 3)) == 0
    dc = draw(D.die_case(max_regions=0 if empty else 5, allow_fixed=not empty, min_side=2,
                         units=D.UNITS_EXACT + D.UNITS_DEC + ["0.0001", "0.0001", "0.001", "0.0025", "0.00001", "1000"]))
    W, H = dc["W"], dc["H"]
    ref = None
    k = draw(_i(0, 3))
    if k == 1 or k == 2:
        ref = ["split", draw(st.sampled_from([1.5, 2, 2.0, 3, 1.42])), draw(st.sampled_from([1, 2, 3, 4, 6, 9, 12, 20]))]
    elif k == 3 and not dc["regions"] and not dc["fixed"]:
        ref = ["grid", draw(_i(1, 4)), draw(_i(2, 4))]
    mods = []
    for i in range(draw(_i(1, 4))):
        kind = draw(st.sampled_from(["soft", "soft", "soft-centre", "hard"]))
        m = dict(name="M%d" % i, kind="hard" if kind == "hard" else "soft", rects=[], center=None, area=None)
        if kind == "soft-centre":
            m["center"] = [draw(_i(0, 2 * W)), draw(_i(0, 2 * H))]
            m["area"] = draw(_i(1, max(1, W * H)))
            if draw(_i(0, 3)) == 0:
                R = draw(L.int_rect(W, H))
                m["withdrawn"] = R + [draw(st.booleans())]
                m["center"] = [R[0] + R[2], R[1] + R[3]]  # (the centre the reader derived from the rectangle stays)
        else:
            sh = draw(_i(0, 3))
            if sh == 0:
                rs = [[0, 0, W, H]] if draw(st.booleans()) else [draw(L.int_rect(W, H))]
            elif sh == 1:
                rs = draw(L.packing(W + 2, H + 2, 1, 3, max(2, max(W, H) // 2 + 1)))
            elif sh == 2:
                rs, _ = draw(stog_rects(0, 0, 2, max(1, min(W, H)), 2, 4))
            else:
                x0 = draw(_i(-2, W - 1))
                y0 = draw(_i(-2, H - 1))
                rs = [[x0, y0, draw(_i(max(x0 + 1, -x0 + 1), W + 3)), draw(_i(max(y0 + 1, -y0 + 1), H + 3))]]
            m["rects"] = [list(r) for r in rs]
            m["area"] = sum((r[2] - r[0]) * (r[3] - r[1]) for r in rs)
        if m["kind"] == "soft" and draw(_i(0, 2)) == 0:
            tags = sorted({r[4] for r in dc["regions"] if r[4] != "#"})
            pick = ["_"] + [t for t in tags if draw(st.booleans())]
            if len(pick) > 1 and draw(_i(0, 3)) == 0:
                pick = pick[1:]
            m["split"] = [[t, draw(_i(1, 9))] for t in pick]
        mods.append(m)
    for m in mods:
        if m["kind"] == "hard" and draw(_i(0, 3)) == 0:
            m["released"] = True
    moves = {m["name"]: [draw(_i(-3, 3)), draw(_i(-3, 3))] for m in mods if m["kind"] == "hard" and draw(st.booleans())}
    return dict(die=dc, refine=ref, modules=mods, include_zero=draw(st.booleans()), fixed_last=draw(st.booleans()),
                moves=moves, alloc_before_move=draw(st.booleans()), reuse=draw(st.booleans()), jitter=draw(_i(0, 2)) == 0)


def subchecks():
    return [Sub("designs", run_alloc, strategy=case_s(), n_quick=5000, n_thorough=120000, fuzz_thorough=2500,
                required=("with-fixed", "refined-split", "refined-grid", "include-zero", "square-from-centre", "hard-module",
                          "sticks-out", "overlaps-fixed-cell", "covers-a-cell-completely", "tiny-die", "hard-module-recentred-in-place", "descriptions-loaded-twice", "fixed-module-released-before-the-die-was-built", "rectangles-withdrawn-after-loading",
                          "square-of-an-area-split-between-ground-and-other-regions",
                          "centres-of-modules-with-rectangles-perturbed-in-place"))]
