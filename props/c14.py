"""C14  Spectral placement keeps every module's disc inside the die (tools/spectral)."""
import math
import random
from fractions import Fraction as Fr

from hypothesis import strategies as st

from frame.geometry.geometry import Shape
from frame.netlist.netlist import Netlist
from gen import design as D
from gen import lattice as L
from gen.stog import stog_rects
from tools.spectral.spectral import Spectral
from vfw import exact as X
from vfw.core import Sub, Violation

PROP = "C14"
RULE = ("connected netlists (a spanning chain over all modules plus random nets of arity 2-5 with weights) with 4-8 movable "
        "modules (soft with area, optionally a centre; hard with 1-3 rectangles) and 0-2 fixed modules, on dies of aspect 1:1 to "
        "1:10 (lattice sizes, dyadic and decimal units); areas are drawn so that every disc fits (radius < min side / 2), a third "
        "of them tight (radius 0.40-0.47 x the shorter side); trial counts 0 (use the initial centres), 1, 2, 5; the seed of the "
        "random start is drawn by Hypothesis and applied with random.seed() right before the call.  Oracle: the call returns; "
        "every movable module's disc (soft: centre; hard: centroid of its rectangles) lies inside the die (1e-9 x size); fixed "
        "rectangles == originals; hard modules translated rigidly; areas unchanged, nets as a plain Netlist reads them from the same document.  non-trivial = some movable disc has "
        "a diameter > 30% of the shorter side; distinct = distinct (design, trials, seed).")
ASSUMPTIONS = [
    "every module is on some net and the netlist is connected (the tool's precondition); terminals only as fixed pins (on the die border)",
    "the random start is an input: random.seed(s) with s generated, so 'all seeds' is sampled",
    "an exception raised by the placement on such a netlist counts as 'does not position the modules'",
]
_i = st.integers


def build_doc(c):
    unit = c["unit"]
    u = Fr(unit)
    mods = {}
    for m in c["modules"]:
        if m["kind"] == "soft":
            d = {"area": float(m["area_f"])}
            if m["c"] is not None:
                d["center"] = [X.num(m["c"][0] * u / 2), X.num(m["c"][1] * u / 2)]
            if m.get("prov"):
                # a provisional rectangle left by an earlier stage, smaller than the module's area (the declared area is what counts)
                side = math.sqrt(float(m["area_f"])) * m["prov"][2] / 8
                d["rectangles"] = [[X.num(m["prov"][0] * u / 2), X.num(m["prov"][1] * u / 2), side, side]]
        elif m["kind"] == "hard" and m.get("pad"):
            # a movable I/O pad: a terminal that has a shape - a hard module like any other
            d = {"terminal": True, "rectangles": [D.rect_entry(r, unit) for r in m["rects"]]}
        elif m["kind"] == "hard":
            d = {"hard": True, "rectangles": [D.rect_entry(r, unit) for r in m["rects"]]}
        elif m["kind"] == "pin":  # a fixed terminal (I/O pin), typically on the border of the die
            d = {"terminal": True, "fixed": True, "center": [X.num(m["c"][0] * u / 2), X.num(m["c"][1] * u / 2)]}
        else:
            d = {"fixed": True, "rectangles": [D.rect_entry(r, unit) for r in m["rects"]]}
        mods[m["name"]] = d
    nets = [list(e["m"]) + ([e["w"]] if e["w"] is not None else []) for e in c["nets"]]
    return {"Modules": mods, "Nets": nets}


def rect_state(m):
    return [(r.center.x, r.center.y, r.shape.w, r.shape.h, r.region, r.fixed, r.hard) for r in m.rectangles]


def run_spectral(c):
    u = float(Fr(c["unit"]))
    W, H = c["W"] * u, c["H"] * u
    try:
        sp = Spectral(build_doc(c))
    except Exception as e:
        raise RuntimeError("generator produced a rejected netlist: %s: %s\n%s" % (type(e).__name__, e, c))
    before = {m.name: (m.area(), dict(m.area_regions), rect_state(m), m.is_soft, m.is_hard, m.is_fixed) for m in sp.modules}
    pins0 = {m.name: (m.center.x, m.center.y) for m in sp.modules if m.is_terminal}
    # (the nets as a plain Netlist reads them from the same document: the tool may not rewrite them while it is being set up either)
    nets0 = [([b.name for b in e.modules], e.weight) for e in Netlist(build_doc(c)).edges]
    trials = int(c["trials"])
    random.seed(int(c["seed"]))
    what = "spectral_layout(%rx%r, trials=%d, seed=%d)" % (W, H, trials, c["seed"])
    try:
        rc = sp.spectral_layout(Shape(W, H), trials, False)
        if c.get("again"):
            # the placement is asked for again on the same object (another random start): everything below is about the final state
            what += " followed by spectral_layout(trials=%d)" % max(1, trials)
            rc = sp.spectral_layout(Shape(W, H), max(1, trials), False)
    except Exception as e:
        import traceback
        site = "?"
        for fr, _ in traceback.walk_tb(e.__traceback__):
            if "/tools/spectral/" in fr.f_code.co_filename:
                site = fr.f_code.co_name
        sig = "raised:%s@%s" % (type(e).__name__, site)
        raise Violation("%s raised %s in %s: %s on %s" % (what, type(e).__name__, site, str(e)[:200], build_doc(c)), sig)
    size = max(W, H)
    tol = 1e-9 * size
    big = False
    for m in sp.modules:
        a0, ar0, rs0, soft0, hard0, fixed0 = before[m.name]
        if (m.area(), dict(m.area_regions), m.is_soft, m.is_hard, m.is_fixed) != (a0, ar0, soft0, hard0, fixed0):
            raise Violation("%s: area or kind of %s changed" % (what, m.name), "area-changed")
        rs = rect_state(m)
        if fixed0:
            if rs != rs0:
                raise Violation("%s: fixed module %s moved: %s -> %s" % (what, m.name, rs0, rs), "fixed-moved")
            if m.name in pins0:
                if m.center is None or abs(m.center.x - pins0[m.name][0]) > tol or abs(m.center.y - pins0[m.name][1]) > tol:
                    raise Violation("%s: fixed terminal %s moved from %s to %s" % (what, m.name, pins0[m.name], m.center), "fixed-moved")
            continue
        radius = math.sqrt(a0 / math.pi)
        if hard0:
            if len(rs) != len(rs0):
                raise Violation("%s: hard module %s has %d rectangles instead of %d" % (what, m.name, len(rs), len(rs0)), "hard-reshaped")
            dx, dy = rs[0][0] - rs0[0][0], rs[0][1] - rs0[0][1]
            for a, b in zip(rs0, rs):
                if a[2:] != b[2:] or abs((b[0] - a[0]) - dx) > tol or abs((b[1] - a[1]) - dy) > tol:
                    raise Violation("%s: hard module %s was not moved rigidly: %s -> %s" % (what, m.name, rs0, rs), "hard-reshaped")
            A = sum(r[2] * r[3] for r in rs)
            cx = sum(r[0] * r[2] * r[3] for r in rs) / A
            cy = sum(r[1] * r[2] * r[3] for r in rs) / A
        else:
            if rs != rs0 and not rs0:
                raise Violation("%s: soft module %s acquired rectangles" % (what, m.name), "soft-rectangles-changed")
            if m.center is None:
                raise Violation("%s: soft module %s has no centre" % (what, m.name), "no-centre")
            cx, cy = m.center.x, m.center.y
        if not (math.isfinite(cx) and math.isfinite(cy)):
            raise Violation("%s: position of %s is (%r, %r)" % (what, m.name, cx, cy), "not-finite")
        if cx - radius < -tol or cx + radius > W + tol or cy - radius < -tol or cy + radius > H + tol:
            raise Violation("%s: the disc of %s (radius %r) centred at (%r, %r) leaves the die" % (what, m.name, radius, cx, cy), "disc-outside")
        if 2 * radius > 0.3 * min(W, H):
            big = True
    if [([b.name for b in e.modules], e.weight) for e in sp.edges] != nets0:
        raise Violation("%s: nets changed: %s, the document says %s" % (what, [([b.name for b in e.modules], e.weight) for e in sp.edges], nets0), "nets-changed")
    # the netlist's own list of all rectangles is another way to the same positions
    try:
        flat = sorted((r.center.x, r.center.y, r.shape.w, r.shape.h) for r in sp.rectangles)
    except Exception as e:
        raise Violation("%s: Netlist.rectangles raised %s: %s afterwards" % (what, type(e).__name__, e), "raised:%s@rectangles" % type(e).__name__)
    per_module = sorted((r.center.x, r.center.y, r.shape.w, r.shape.h) for m in sp.modules for r in m.rectangles)
    if flat != per_module:
        raise Violation("%s: Netlist.rectangles and the modules' own rectangles disagree afterwards: %s vs %s" % (
            what, [x for x in flat if x not in per_module][:3], [x for x in per_module if x not in flat][:3]), "rectangle-lists-disagree")
    kinds = [m["kind"] for m in c["modules"]]
    prov = any(m.get("prov") for m in c["modules"])
    cls = ["trials=%d" % trials]
    if "hard" in kinds:
        cls.append("hard-movable")
    if "fixed" in kinds:
        cls.append("with-fixed")
    if any(m["kind"] == "pin" and 0 in m["c"] for m in c["modules"]):
        cls.append("fixed-pin-on-left-or-bottom-border")
    if c.get("tight"):
        cls.append("tight-fit")
    if prov:
        cls.append("soft-module-with-a-provisional-rectangle")
    if any(m.get("pad") for m in c["modules"]):
        cls.append("movable-terminal-with-rectangles")
    if c.get("again"):
        cls.append("placed-twice-on-the-same-object")
    if max(W, H) >= 5 * min(W, H):
        cls.append("elongated-die")
    return dict(nt=big, cls=cls)


@st.composite
def design_s(draw):
    unit = draw(st.sampled_from(["1", "0.5", "0.125", "2", "16", "0.1", "0.3", "2.5", "7"]))
    short = draw(_i(4, 12))
    long_ = short * draw(st.sampled_from([1, 1, 2, 3, 5, 10]))
    W, H = (short, long_) if draw(st.booleans()) else (long_, short)
    u = float(Fr(unit))
    trials = draw(st.sampled_from([0, 1, 1, 2, 5]))
    mods = []
    nfix = draw(st.sampled_from([0, 0, 1, 2]))
    pack = draw(L.packing(W, H, 0, nfix, max(1, short // 3))) if nfix else []
    for k, r in enumerate(pack[:nfix]):
        mods.append(dict(name="F%d" % k, kind="fixed", rects=[r]))
    for k in range(draw(st.sampled_from([0, 0, 1, 2]))):
        side = draw(_i(0, 3))
        t = draw(_i(0, 2 * (H if side in (0, 2) else W)))
        mods.append(dict(name="P%d" % k, kind="pin", c=[0, t] if side == 0 else [t, 0] if side == 1 else [2 * W, t] if side == 2 else [t, 2 * H]))
    nmov = draw(_i(4, 8))
    tight = False
    for i in range(nmov):
        kind = draw(st.sampled_from(["soft", "soft", "soft", "hard"]))
        if kind == "soft":
            t = draw(_i(0, 2)) == 0
            frac = draw(st.floats(0.40, 0.47)) if t else draw(st.floats(0.02, 0.35))
            tight = tight or t
            radius = frac * short * u
            m = dict(name="M%d" % i, kind="soft", area_f=math.pi * radius * radius, c=None)
            if trials == 0 or draw(st.booleans()):
                m["c"] = [draw(_i(0, 2 * W)), draw(_i(0, 2 * H))]
            if draw(_i(0, 4)) == 0:
                m["prov"] = [draw(_i(1, 2 * W - 1)), draw(_i(1, 2 * H - 1)), draw(_i(1, 6))]
                if m["c"] is not None:
                    m["c"] = m["prov"][:2]
        else:
            lim = max(1, short // 3)
            if draw(st.booleans()):
                rs, _ = draw(stog_rects(0, 0, 1, lim, max(1, lim // 2), 3))
            else:
                rs = [[0, 0, draw(_i(1, lim)), draw(_i(1, lim))]]
            ox, oy = draw(_i(0, W)), draw(_i(0, H))
            rs = [[r[0] + ox, r[1] + oy, r[2] + ox, r[3] + oy] for r in rs]
            m = dict(name="H%d" % i, kind="hard", rects=rs, pad=draw(_i(0, 3)) == 0)
        mods.append(m)
    mods = list(draw(st.permutations(mods))) if draw(st.booleans()) else mods
    names = [m["name"] for m in mods]
    W_ = [None, None, 1, 2, 0.5, 3.5, 10]
    nets = []
    order = list(draw(st.permutations(names)))
    # spanning structure: consecutive modules of a random order are connected (arity 2 or 3)
    i = 0
    while i < len(order) - 1:
        k = 3 if i + 2 < len(order) and draw(st.booleans()) else 2
        nets.append(dict(m=order[i:i + k], w=draw(st.sampled_from(W_))))
        i += k - 1
    for _ in range(draw(_i(0, 4))):
        ar = draw(st.sampled_from([2, 2, 3, 4, 5]))
        mem = [names[draw(_i(0, len(names) - 1))] for _ in range(ar)]
        if len(set(mem)) >= 2:
            nets.append(dict(m=mem, w=draw(st.sampled_from(W_))))
    if trials == 0 and not general_position(mods, unit):
        trials = 1  # 'use the initial centres' needs centres that span the plane (not coincident / collinear)
    return dict(unit=unit, W=W, H=H, modules=mods, nets=nets, trials=trials, seed=draw(_i(0, 2 ** 32 - 1)), tight=tight, again=draw(_i(0, 3)) == 0)


def general_position(mods, unit):
    """are the initial positions of the movable modules clearly non-collinear (mass-weighted covariance well conditioned)?"""
    u = Fr(unit)
    pts = []
    for m in mods:
        if m["kind"] in ("fixed", "pin"):
            continue
        if m["kind"] == "soft":
            if m["c"] is None:
                return False
            pts.append((float(m["c"][0] * u / 2), float(m["c"][1] * u / 2), m["area_f"]))
        else:
            A = sum((r[2] - r[0]) * (r[3] - r[1]) for r in m["rects"])
            cx = sum((r[0] + r[2]) / 2 * (r[2] - r[0]) * (r[3] - r[1]) for r in m["rects"]) / A
            cy = sum((r[1] + r[3]) / 2 * (r[2] - r[0]) * (r[3] - r[1]) for r in m["rects"]) / A
            pts.append((cx * float(u), cy * float(u), A * float(u) ** 2))
    M = sum(p[2] for p in pts)
    mx = sum(p[0] * p[2] for p in pts) / M
    my = sum(p[1] * p[2] for p in pts) / M
    sxx = sum(p[2] * (p[0] - mx) ** 2 for p in pts) / M
    syy = sum(p[2] * (p[1] - my) ** 2 for p in pts) / M
    sxy = sum(p[2] * (p[0] - mx) * (p[1] - my) for p in pts) / M
    span = max(p[0] for p in pts) - min(p[0] for p in pts), max(p[1] for p in pts) - min(p[1] for p in pts)
    if min(span) <= 0:
        return False
    return sxx > 1e-3 * span[0] ** 2 and syy > 1e-3 * span[1] ** 2 and sxx * syy - sxy * sxy > 0.05 * sxx * syy


def subchecks():
    return [Sub("placements", run_spectral, strategy=design_s(), n_quick=1400, n_thorough=40000, shrink_quick=True,
                required=("trials=0", "trials=1", "trials=5", "hard-movable", "with-fixed", "tight-fit", "elongated-die", "fixed-pin-on-left-or-bottom-border", "soft-module-with-a-provisional-rectangle", "movable-terminal-with-rectangles", "placed-twice-on-the-same-object"))]
