"""C04  Netlist write -> read round trip preserves the design (yaml_write_netlist / yaml_read_netlist)."""
from hypothesis import strategies as st

from frame.geometry.geometry import Point
from frame.netlist.netlist import Netlist
from gen import netlist as G
from vfw.core import Sub, Violation

PROP = "C04"
RULE = ("netlist documents from the shared generator: 1-6 modules mixing soft (scalar or per-region areas, with/without centre, "
        "aspect ratio scalar or interval, 0-4 rectangles some in named regions), hard (1-5 disjoint rectangles, orthogon or not), "
        "flippable hard, fixed, terminal (with/without centre, fixed or not); names from a pool with YAML-sensitive identifiers "
        "(yes, no, on, true, null, y, N, _); nets of arity 2-6 with repeated members and weight absent / int / float. "
        "Loaded from the parsed tree or from YAML text. Oracle: n = Netlist(doc); t = n.write_yaml(); n2 = Netlist(t) compared "
        "field by field with ==; n2.write_yaml() == t; writing twice gives the same text; then (half of the cases) the loaded object is "
        "edited through its API (centre moved, square created, rectangles assigned, hard module recentred) and written and read again. "
        "non-trivial = at least 2 modules of different kinds and at least one net; distinct = distinct model.")
ASSUMPTIONS = [
    "stored numbers are compared with == (the dumper writes repr, the reader parses it back exactly); quantities the reader derives from the rectangles (centre of a module with rectangles, area of a hard module) with 1e-12 relative, because recognition may reorder the rectangles and float sums depend on the order",
    "documents the reader rejects are outside C04's quantifier and are skipped (counted as a class); on the unchanged tree none is rejected, and C05 reports such a rejection as a violation",
]


def mod_fields(m):
    return dict(
        name=m.name, soft=m.is_soft, hard=m.is_hard, fixed=m.is_fixed, terminal=m.is_terminal, flip=m.flip,
        area_regions=dict(m.area_regions), area=m.area(),
        center=None if m.center is None else (m.center.x, m.center.y),
        aspect_ratio=None if m.aspect_ratio is None else (m.aspect_ratio.min_wh, m.aspect_ratio.max_wh),
        rectangles=[(r.center.x, r.center.y, r.shape.w, r.shape.h, r.region, r.fixed, r.hard, r.location.name) for r in m.rectangles],
    )


def _close(x, y):
    if isinstance(x, dict) and isinstance(y, dict):
        return set(x) == set(y) and all(_close(x[k], y[k]) for k in x)
    if isinstance(x, tuple) and isinstance(y, tuple):
        return len(x) == len(y) and all(_close(p, q) for p, q in zip(x, y))
    if isinstance(x, (int, float)) and isinstance(y, (int, float)):
        return abs(x - y) <= 1e-12 * max(abs(x), abs(y), 1e-300)
    return x == y


def net_fields(e):
    return ([b.name for b in e.modules], e.weight)


def describe(nl):
    return [mod_fields(m) for m in nl.modules], [net_fields(e) for e in nl.edges]


def compare(before, after, t, what=""):
    if len(after[0]) != len(before[0]) or [m["name"] for m in after[0]] != [m["name"] for m in before[0]]:
        raise Violation("%smodules written %s, read back %s" % (what, [m["name"] for m in before[0]], [m["name"] for m in after[0]]),
                        "modules-differ")
    for a, b in zip(before[0], after[0]):
        for k in a:
            if a[k] != b[k]:
                # quantities DERIVED from the rectangles (centre of a module with rectangles, area of a hard module) are
                # re-computed by the reader from a list whose order recognition may have changed: equal up to rounding
                derived = a["rectangles"] and (k == "center" or (a["hard"] and k in ("area", "area_regions")))
                if derived and _close(a[k], b[k]):
                    continue
                raise Violation("%smodule %s: %s was %r, after write+read it is %r\n%s" % (what, a["name"], k, a[k], b[k], t),
                                "field-" + k)
    if before[1] != after[1]:
        raise Violation("%snets were %s, after write+read %s\n%s" % (what, before[1], after[1], t), "nets-differ")


def apply_edits(n, edits):
    """Edits the loaded netlist through its public API (what the floorplanning stages do between two snapshots)."""
    done = []
    mods = n.modules
    for kind, k, a, b in edits:
        m = mods[k % len(mods)]
        a, b = abs(a), abs(b)  # (coordinates stay non-negative: the reader refuses negative centres)
        if kind == "center" and m.center is not None and m.num_rectangles == 0:
            m.center = Point(m.center.x + a, m.center.y + b)
            done.append("edit-centre")
        elif kind == "center-inplace" and m.center is not None and m.num_rectangles == 0:
            m.center.x += a
            m.center.y += b
            done.append("edit-centre")
        elif kind == "square" and m.is_soft and m.center is not None and m.num_rectangles == 0:
            m.create_square()
            m.create_stog()
            done.append("edit-square")
        elif kind == "assign" and m.is_soft:
            cx, cy = (m.center.x, m.center.y) if m.center is not None else (10.0, 10.0)
            n.assign_rectangles({m.name: [[abs(cx) + 4 + a, abs(cy) + 4 + b, 2.0, 3.0]]})
            m.create_stog()
            done.append("edit-assign")
        elif kind == "recenter" and m.is_hard and not m.is_fixed and not m.is_terminal and m.num_rectangles > 0:
            c0 = m.calculate_center_from_rectangles()
            m.center = Point(c0.x + a, c0.y + b)
            m.recenter_rectangles()
            m.center = None  # (as the spectral stage does: the centre of a hard module is the one of its rectangles)
            done.append("edit-recenter-hard")
    return done


def run_roundtrip(c):
    model = c["model"]
    doc = G.to_text(model) if c["form"] == "text" else G.to_tree(model)
    try:
        n = Netlist(doc)
    except Exception as e:
        # C04 quantifies over the netlists the reader accepts; whether a well-formed document is accepted is C05's question
        # (its 'wellformed' subcheck reports a rejection of the same generator's documents as a violation)
        return dict(nt=False, cls=["source-document-rejected-by-the-reader:" + type(e).__name__])
    before = describe(n)
    try:
        t = n.write_yaml()
    except Exception as e:
        raise Violation("write_yaml raised %s: %s for %s" % (type(e).__name__, e, G.to_tree(model)), "write-raised")
    if describe(n) != before:
        raise Violation("write_yaml altered the netlist object", "write-mutates")
    failed = len(model["modules"]) % 2 == 0
    if failed:
        # productions of other objects that fail (values the dumper cannot represent, a file that cannot be created) in between
        from props.c19 import failed_productions
        failed_productions()
    t_again = n.write_yaml()
    if t_again != t:
        raise Violation("writing the same netlist twice gives different documents:\n%s\n---\n%s" % (t, t_again), "write-not-repeatable")
    try:
        n2 = Netlist(t)
    except Exception as e:
        raise Violation("the written document is rejected by the reader: %s: %s\n%s" % (type(e).__name__, e, t), "reread-rejected")
    # the same round trip through a file (the name is any string without ': ')
    import os
    from gen import files
    path = files.path(len(t) + len(model["modules"]))
    try:
        n.write_yaml(path)
        with open(path) as f:
            on_disk = f.read()
        if on_disk != t:
            raise Violation("write_yaml(%r) wrote a document that differs from the returned text:\n%r\n---\n%r" % (path, on_disk[:300], t[:300]), "file-differs")
        try:
            n2f = Netlist(path)
        except Exception as e:
            raise Violation("the document written to %r is rejected when read back from that file: %s: %s" % (path, type(e).__name__, e), "reread-rejected")
        if describe(n2f) != describe(n2):
            raise Violation("reading the document from the file %r gives another design than reading its text" % path, "file-differs")
    finally:
        if os.path.exists(path):
            os.unlink(path)
    after = describe(n2)
    compare(before, after, t)
    t2 = n2.write_yaml()
    if t2 != t:
        raise Violation("writing the reloaded design gives a different document:\n%s\n---\n%s" % (t, t2), "second-write-differs")
    kinds = {m["kind"] for m in model["modules"]}
    cls = ["kind-" + k for k in kinds] + [c["form"]] + (["failed-writes-of-other-objects-in-between"] if failed else [])
    # the same object is edited through its API and written again: the new document must describe the edited design
    if c.get("edits"):
        done = apply_edits(n, c["edits"])
        if done:
            cls += done + ["edited-then-written-again"]
            edited = describe(n)
            for d in edited[0]:
                # the centre of a module with rectangles IS the centroid of its rectangles (that is what the reader reports);
                # Module.center of the edited object may still hold the value from before the rectangles were assigned
                if d["rectangles"]:
                    ar = sum(r[2] * r[3] for r in d["rectangles"])
                    d["center"] = (sum(r[0] * r[2] * r[3] for r in d["rectangles"]) / ar, sum(r[1] * r[2] * r[3] for r in d["rectangles"]) / ar)
            try:
                t3 = n.write_yaml()
                n3 = Netlist(t3)
            except Exception as e:
                raise Violation("after editing (%s) write+read raised %s: %s" % (done, type(e).__name__, e), "edited-write-raised")
            compare(edited, describe(n3), t3, "after editing the loaded netlist (%s) and writing it again: " % ", ".join(done))
            # ... and the edited design is written over the file of the first round trip (a file that was read before in this process):
            # what is read from it now is the edited design
            try:
                n.write_yaml(path)
                n3f = Netlist(path)
            except Exception as e:
                raise Violation("after editing (%s) write+read through the file used before raised %s: %s" % (done, type(e).__name__, e), "edited-write-raised")
            finally:
                if os.path.exists(path):
                    os.unlink(path)
            compare(edited, describe(n3f), t3, "after editing the loaded netlist (%s) and writing it over the file that was written and read before: " % ", ".join(done))
            cls.append("file-written-again-after-it-was-read")
    for m in model["modules"]:
        if m["kind"] == "soft" and not m["area_scalar"]:
            cls.append("region-areas")
        if m["flip"]:
            cls.append("flip")
        if m["ar"] is not None:
            cls.append("aspect-ratio")
        if any(r[4] for r in m["rects"]):
            cls.append("rect-in-region")
        if m["kind"] == "terminal" and m["center"] is not None:
            cls.append("terminal-centre")
        if m["kind"] == "soft" and m["center"] is not None:
            cls.append("soft-centre")
        if len(m["rects"]) >= 2:
            cls.append("multi-rect")
        if m["kind"] == "terminal" and m["rects"]:
            cls.append("terminal-with-rectangles")
    if model.get("nets_first"):
        cls.append("nets-listed-before-modules")
    for e in model["nets"]:
        cls.append("net-weighted" if e["w"] is not None else "net-unweighted")
        if e["w"] in (1, 1.0) and e["w"] is not None:
            cls.append("net-weight-1")
        if len(e["m"]) >= 3:
            cls.append("hyperedge")
    return dict(nt=len(kinds) >= 2 and len(model["nets"]) >= 1, cls=sorted(set(cls)))


@st.composite
def case_s(draw):
    c = dict(model=draw(G.netlist_model(pads=True)), form=draw(st.sampled_from(["tree", "tree", "text"])))
    if draw(st.booleans()):
        c["edits"] = [[draw(st.sampled_from(["center", "center-inplace", "square", "assign", "recenter"])), draw(st.integers(0, 5)),
                       draw(st.integers(-8, 8)) / 4, draw(st.integers(-8, 8)) / 4] for _ in range(draw(st.integers(1, 3)))]
    return c


def subchecks():
    return [Sub("roundtrip", run_roundtrip, strategy=case_s(), n_quick=5000, n_thorough=120000, fuzz_thorough=2500,
                required=("kind-soft", "kind-hard", "kind-fixed", "kind-terminal", "region-areas", "flip", "aspect-ratio",
                          "rect-in-region", "terminal-centre", "soft-centre", "multi-rect", "net-weighted", "net-unweighted",
                          "net-weight-1", "hyperedge", "text", "tree", "edited-then-written-again", "edit-centre", "edit-square",
                          "edit-assign", "edit-recenter-hard", "failed-writes-of-other-objects-in-between", "terminal-with-rectangles",
                          "nets-listed-before-modules"))]
