"""C04  Netlist write -> read round trip preserves the design (yaml_write_netlist / yaml_read_netlist)."""
from hypothesis import strategies as st

from frame.netlist.netlist import Netlist
from gen import netlist as G
from vfw.core import Sub, Violation

PROP = "C04"
RULE = ("netlist documents from the shared generator: 1-6 modules mixing soft (scalar or per-region areas, with/without centre, "
        "aspect ratio scalar or interval, 0-4 rectangles some in named regions), hard (1-5 disjoint rectangles, orthogon or not), "
        "flippable hard, fixed, terminal (with/without centre, fixed or not); names from a pool with YAML-sensitive identifiers "
        "(yes, no, on, true, null, y, N, _); nets of arity 2-6 with repeated members and weight absent / int / float. "
        "Loaded from the parsed tree or from YAML text. Oracle: n = Netlist(doc); t = n.write_yaml(); n2 = Netlist(t) compared "
        "field by field with ==; n2.write_yaml() == t; writing twice gives the same text. "
        "non-trivial = at least 2 modules of different kinds and at least one net; distinct = distinct model.")
ASSUMPTIONS = [
    "stored numbers are compared with == (the dumper writes repr, the reader parses it back exactly); quantities the reader derives from the rectangles (centre of a module with rectangles, area of a hard module) with 1e-12 relative, because recognition may reorder the rectangles and float sums depend on the order",
    "the generated documents are all accepted by the reader (checked: a rejection of a generated document is reported as a harness error)",
]


def mod_fields(m):
    return dict(
        name=m.name, soft=m.is_soft, hard=m.is_hard, fixed=m.is_fixed, terminal=m.is_terminal, flip=m.flip,
        area_regions=dict(m.area_regions), area=m.area(),
        center=None if m.center is None else (m.center.x, m.center.y),
        aspect_ratio=None if m.aspect_ratio is None else (m.aspect_ratio.min_wh, m.aspect_ratio.max_wh),
        rectangles=[(r.center.x, r.center.y, r.shape.w, r.shape.h, r.region, r.fixed, r.hard, r.location.name) for r in m.rectangles],
    )


def _close(x, y):
    if isinstance(x, dict) and isinstance(y, dict):
        return set(x) == set(y) and all(_close(x[k], y[k]) for k in x)
    if isinstance(x, tuple) and isinstance(y, tuple):
        return len(x) == len(y) and all(_close(p, q) for p, q in zip(x, y))
    if isinstance(x, (int, float)) and isinstance(y, (int, float)):
        return abs(x - y) <= 1e-12 * max(abs(x), abs(y), 1e-300)
    return x == y


def net_fields(e):
    return ([b.name for b in e.modules], e.weight)


def describe(nl):
    return [mod_fields(m) for m in nl.modules], [net_fields(e) for e in nl.edges]


def run_roundtrip(c):
    model = c["model"]
    doc = G.to_text(model) if c["form"] == "text" else G.to_tree(model)
    try:
        n = Netlist(doc)
    except Exception as e:
        raise RuntimeError("generator produced a document the reader rejects: %s: %s\n%s" % (type(e).__name__, e, doc))
    before = describe(n)
    try:
        t = n.write_yaml()
    except Exception as e:
        raise Violation("write_yaml raised %s: %s for %s" % (type(e).__name__, e, G.to_tree(model)), "write-raised")
    if describe(n) != before:
        raise Violation("write_yaml altered the netlist object", "write-mutates")
    t_again = n.write_yaml()
    if t_again != t:
        raise Violation("writing the same netlist twice gives different documents:\n%s\n---\n%s" % (t, t_again), "write-not-repeatable")
    try:
        n2 = Netlist(t)
    except Exception as e:
        raise Violation("the written document is rejected by the reader: %s: %s\n%s" % (type(e).__name__, e, t), "reread-rejected")
    after = describe(n2)
    if len(after[0]) != len(before[0]) or [m["name"] for m in after[0]] != [m["name"] for m in before[0]]:
        raise Violation("modules written %s, read back %s" % ([m["name"] for m in before[0]], [m["name"] for m in after[0]]),
                        "modules-differ")
    for a, b in zip(before[0], after[0]):
        for k in a:
            if a[k] != b[k]:
                # quantities DERIVED from the rectangles (centre of a module with rectangles, area of a hard module) are
                # re-computed by the reader from a list whose order recognition may have changed: equal up to rounding
                derived = a["rectangles"] and (k == "center" or (a["hard"] and k in ("area", "area_regions")))
                if derived and _close(a[k], b[k]):
                    continue
                raise Violation("module %s: %s was %r, after write+read it is %r\n%s" % (a["name"], k, a[k], b[k], t),
                                "field-" + k)
    if before[1] != after[1]:
        raise Violation("nets were %s, after write+read %s\n%s" % (before[1], after[1], t), "nets-differ")
    t2 = n2.write_yaml()
    if t2 != t:
        raise Violation("writing the reloaded design gives a different document:\n%s\n---\n%s" % (t, t2), "second-write-differs")
    kinds = {m["kind"] for m in model["modules"]}
    cls = ["kind-" + k for k in kinds] + [c["form"]]
    for m in model["modules"]:
        if m["kind"] == "soft" and not m["area_scalar"]:
            cls.append("region-areas")
        if m["flip"]:
            cls.append("flip")
        if m["ar"] is not None:
            cls.append("aspect-ratio")
        if any(r[4] for r in m["rects"]):
            cls.append("rect-in-region")
        if m["kind"] == "terminal" and m["center"] is not None:
            cls.append("terminal-centre")
        if m["kind"] == "soft" and m["center"] is not None:
            cls.append("soft-centre")
        if len(m["rects"]) >= 2:
            cls.append("multi-rect")
    for e in model["nets"]:
        cls.append("net-weighted" if e["w"] is not None else "net-unweighted")
        if e["w"] in (1, 1.0) and e["w"] is not None:
            cls.append("net-weight-1")
        if len(e["m"]) >= 3:
            cls.append("hyperedge")
    return dict(nt=len(kinds) >= 2 and len(model["nets"]) >= 1, cls=sorted(set(cls)))


@st.composite
def case_s(draw):
    return dict(model=draw(G.netlist_model()), form=draw(st.sampled_from(["tree", "tree", "text"])))


def subchecks():
    return [Sub("roundtrip", run_roundtrip, strategy=case_s(), n_quick=5000, n_thorough=120000,
                required=("kind-soft", "kind-hard", "kind-fixed", "kind-terminal", "region-areas", "flip", "aspect-ratio",
                          "rect-in-region", "terminal-centre", "soft-centre", "multi-rect", "net-weighted", "net-unweighted",
                          "net-weight-1", "hyperedge", "text", "tree"))]
