"""C09  Legaliser constraint system admits exactly the legal floorplans (tools/legalfloor)."""
import contextlib
import io
import shutil
from fractions import Fraction as Fr

from hypothesis import strategies as st

from frame.netlist.netlist import Netlist
from gen import floorplan as FP
from gen import lattice as L
from tools.legalfloor import legalfloor as LF
from vfw import exact as X
from vfw.core import Sub, Violation

PROP = "C09"
RULE = ("a legal floorplan F0 (die = grid of 24-unit slots, one single-trunk orthogon per slot: soft / hard with 1-4 "
        "rectangles / fixed, every rectangle within the aspect-ratio limit R in {1.5, 2, 3, 5}; integer and fractional "
        "coordinates, Python ints and floats in the document) is loaded with the real Netlist, converted with the real "
        "netlist_to_utils and the real Model is built (no solve).  Configurations assigned to the model variables: F0; F1 = a "
        "second legal configuration with the same role structure (soft reshaped and moved, hard translated rigidly, fixed "
        "untouched); F1 with exactly one legality clause broken by at least one lattice unit (outside die, ratio x1.3, area "
        "-20%, branch detached, branch beyond the trunk's extent, two branches swapped, two branches overlapping, two modules "
        "overlapping trunk-on-trunk, hard rectangle shrunk / enlarged / moved relative to its trunk, fixed module translated).  With the "
        "slack annealed to 0, is_equation_met() of every equation of the groups Area, Inter, Fix, Bounds, Shapes, Attach, Intra "
        "must be True for F0 and F1 and False for at least one equation of each broken configuration.  "
        "non-trivial = >= 2 modules and >= 1 module with a branch; distinct = distinct case.")
ASSUMPTIONS = [
    "groups 'radius' (step cap) and 'Rid' are optimiser bookkeeping, not legality, and are not evaluated; 'Exact Value' (the pinned time) is evaluated for the legal configurations only (it must be satisfiable) and never counts as a reason for rejecting an illegal one",
    "the slack epsilon is annealed with Model.time_advance() in 1-4 steps up to time = 1000 (0.9^1000 x 0.3 < 1e-40); is_equation_met keeps its own absolute tolerance 1e-6",
    "violations are by >= one lattice unit; module overlap is trunk centre on trunk centre, far beyond the documented smoothing tolerance tau^2",
    "the trunk is listed first and no branch is larger than the trunk, so the recogniser keeps the generator's trunk",
]
_i = st.integers
LEGAL_GROUPS = ("Area", "Inter", "Fix", "Bounds", "Shapes", "Attach", "Intra")
VIOLATIONS = ["outside", "ratio", "area", "detached", "beyond-extent", "swapped", "branches-overlap", "modules-overlap",
              "hard-resized", "hard-enlarged", "hard-moved", "fixed-moved"]


def doc_of(c):
    u = Fr(c["unit"])
    S = c["S"]
    mods = {}
    for m in c["modules"]:
        rects = FP.rects_of(m, 0, S)
        if m.get("order"):  # the trunk stays first, the branches are listed in a generated order (not sorted along their side)
            rects = [rects[0]] + [rects[1 + k] for k in m["order"] if 1 + k < len(rects)]
        rl = []
        for _, r in rects:
            cs = L.csr(r, c["unit"])
            rl.append([float(v) if m["floats"] else X.num(v) for v in cs])
        d = {"rectangles": rl}
        if m["kind"] == "soft":
            a = FP.required_area_units(m, S) * u * u
            d["area"] = float(a) if m["floats"] else X.num(a)
            if m.get("split"):
                # the same required area given per region (parts that add up to it): the module needs the total
                tot = sum(k for _, k in m["split"])
                d["area"] = {t: float(a * k / tot) if m["floats"] else X.num(a * k / tot) for t, k in m["split"]}
        elif m["kind"] == "hard":
            d["hard"] = True
        else:
            d["fixed"] = True
        mods[m["name"]] = d
    nets = [list(e["m"]) + ([e["w"]] if e["w"] is not None else []) for e in c["nets"]]
    return {"Modules": mods, "Nets": nets}


def build_model(c):
    u = float(Fr(c["unit"]))
    S = c["S"]
    nl = Netlist(doc_of(c))
    ml, al, xl, yl, wl, hl, hyper, names = LF.netlist_to_utils(nl)
    with contextlib.redirect_stdout(io.StringIO()):
        model = LF.Model(ml, al, xl, yl, wl, hl, c["cols"] * S * u, c["rows"] * S * u, hyper, float(c["ratio"]), names, 0.9, 0.3, 1)
    return nl, model


def cleanup(model):
    for g in (getattr(model.gekko, "gekko", None),):
        p = getattr(g, "_path", None) or getattr(g, "path", None)
        if p:
            shutil.rmtree(p, ignore_errors=True)


def equations(model, groups=LEGAL_GROUPS):
    eqs = []
    for g, lst in model.gekko.constraints.items():
        if g in groups:
            eqs += [(g, e) for e in lst]
    for M in model.M:
        for ctrs in M.constraints:
            eqs += [(g, e) for g, e in ctrs if g in LEGAL_GROUPS]
        for dep, lst in M.codependent_constraints.items():
            eqs += [(g, e) for g, e in lst if g in LEGAL_GROUPS]
    return eqs


def unmet(model, groups=LEGAL_GROUPS):
    out = []
    for g, e in equations(model, groups):
        try:
            ok = e.is_equation_met()
        except Exception as ex:
            raise Violation("evaluating equation %s raised %s: %s" % (e.name, type(ex).__name__, ex), "evaluate-raised")
        if not ok:
            out.append("%s/%s" % (g, e.name))
    return out


def fl_rects(rects, unit):
    """[(role, (cx, cy, w, h) floats)]"""
    out = []
    for role, r in rects:
        cs = L.csr(r, unit)
        out.append((role, tuple(float(v) for v in cs)))
    return out


def index_map(c, model):
    """for every module: model rectangle index of each generator rectangle (matched on the input configuration), and
    a check that the converter gave each rectangle the generator's role"""
    maps = []
    S = c["S"]
    for mi, m in enumerate(c["modules"]):
        mine = fl_rects(FP.rects_of(m, 0, S), c["unit"])
        M = model.M[mi]
        vals = [(M.x[j].evaluate(), M.y[j].evaluate(), M.w[j].evaluate(), M.h[j].evaluate()) for j in range(len(M.x))]
        if len(vals) != len(mine):
            raise Violation("module %s has %d rectangles in the model, %d in the netlist" % (m["name"], len(vals), len(mine)), "model-rect-count")
        idx = []
        for role, g in mine:
            k = [j for j, v in enumerate(vals) if all(abs(a - b) <= 1e-9 * (1 + abs(b)) for a, b in zip(v, g))]
            if len(k) != 1:
                raise Violation("module %s: rectangle %s of the netlist is found %d times among the model's initial values %s" % (
                    m["name"], g, len(k), vals), "model-initial-values")
            j = k[0]
            want = {"T": [0], "N": M.N, "S": M.S, "E": M.E, "W": M.W}[role]
            if j not in want:
                raise Violation("module %s: rectangle %s is the generator's %s rectangle but the converter filed it elsewhere "
                                "(trunk=0, N=%s, S=%s, E=%s, W=%s, it has index %d)" % (m["name"], g, role, M.N, M.S, M.E, M.W, j), "roles")
            idx.append(j)
        maps.append(idx)
    return maps


def assign(model, maps, config):
    """config: per module list of (cx, cy, w, h) in generator order"""
    for mi, rects in enumerate(config):
        M = model.M[mi]
        for g, j in zip(rects, maps[mi]):
            M.x[j].assign(g[0])
            M.y[j].assign(g[1])
            M.w[j].assign(g[2])
            M.h[j].assign(g[3])


def config_of(c, which):
    return [[g for _, g in fl_rects(FP.rects_of(m, which, c["S"]), c["unit"])] for m in c["modules"]]


def violate(c, kind, pick):
    """returns (config, description) = F1 with one clause broken, or None if the case offers no place for it"""
    S, unit = c["S"], c["unit"]
    u = float(Fr(unit))
    mods = c["modules"]
    cfg = config_of(c, 1)
    roles = [[r for r, _ in FP.rects_of(m, 1, S)] for m in mods]
    W, H = c["cols"] * S * u, c["rows"] * S * u
    delta = max(1, -(-max(c["cols"], c["rows"]) * S // 20)) * u  # >= 5% of the die side, whole units

    def choose(cands):
        return cands[pick % len(cands)] if cands else None

    def move(mi, dx, dy, only=None):
        cfg[mi] = [(g[0] + dx, g[1] + dy, g[2], g[3]) if (only is None or k in only) else g for k, g in enumerate(cfg[mi])]

    if kind == "outside":
        mi = choose([i for i, m in enumerate(mods) if m["kind"] != "fixed"])
        if mi is None:
            return None
        xmin = min(g[0] - g[2] / 2 for g in cfg[mi])
        move(mi, -(xmin + delta), 0)
        return cfg, "module %s pushed %r out of the die on the left" % (mods[mi]["name"], delta)
    if kind == "ratio":
        cand = [(i, k) for i, m in enumerate(mods) if m["kind"] == "soft" for k in range(len(cfg[i])) if m["slack"] <= 0.5]
        p = choose(cand)
        if p is None:
            return None
        i, k = p
        g = cfg[i][k]
        R = float(c["ratio"])
        # make it thinner around the same centre: stays attached, inside its extent and inside the die
        if roles[i][k] in ("T", "N", "S"):
            g2 = (g[0], g[1], g[3] / (R * 1.3), g[3]) if g[2] <= g[3] or roles[i][k] != "T" else (g[0], g[1], g[2], g[2] / (R * 1.3))
            if roles[i][k] in ("N", "S"):
                g2 = (g[0], g[1], g[3] / (R * 1.3), g[3])
        else:
            g2 = (g[0], g[1], g[2], g[2] / (R * 1.3))
        if roles[i][k] == "T" and len(cfg[i]) > 1:
            return None  # shrinking a trunk would detach its branches
        if g2[2] >= g[2] and g2[3] >= g[3]:
            return None
        cfg[i][k] = g2
        area = sum(x[2] * x[3] for x in cfg[i])
        if area < float(FP.required_area_units(mods[i], S)) * u * u:
            return None
        return cfg, "rectangle %d of %s thinned to ratio %.2f" % (k, mods[i]["name"], R * 1.3)
    if kind == "area":
        cand = [i for i, m in enumerate(mods) if m["kind"] == "soft" and len(cfg[i]) == 1]
        i = choose(cand)
        if i is None:
            return None
        g = cfg[i][0]
        req = float(FP.required_area_units(mods[i], S)) * u * u
        s = (0.8 * req / (g[2] * g[3])) ** 0.5
        if s >= 1:
            return None
        cfg[i][0] = (g[0], g[1], g[2] * s, g[3] * s)
        return cfg, "module %s shrunk to 80%% of its required area" % mods[i]["name"]
    if kind in ("detached", "beyond-extent"):
        cand = [(i, k) for i, m in enumerate(mods) if m["kind"] == "soft" for k in range(1, len(cfg[i]))]
        p = choose(cand)
        if p is None:
            return None
        i, k = p
        role = roles[i][k]
        t = cfg[i][0]
        g = cfg[i][k]
        if kind == "detached":
            dx = {"E": delta, "W": -delta}.get(role, 0.0)
            dy = {"N": delta, "S": -delta}.get(role, 0.0)
            cfg[i][k] = (g[0] + dx, g[1] + dy, g[2], g[3])
            return cfg, "%s branch %d of %s moved %r away from its trunk" % (role, k, mods[i]["name"], delta)
        # slide along the side beyond the trunk's corner (the outermost branch of that side, so that the order is kept)
        same = [q for q in range(1, len(cfg[i])) if roles[i][q] == role]
        if role in "NS":
            k = max(same, key=lambda q: cfg[i][q][0])
            g = cfg[i][k]
            cfg[i][k] = (t[0] + t[2] / 2 - g[2] / 2 + delta, g[1], g[2], g[3])
        else:
            k = max(same, key=lambda q: cfg[i][q][1])
            g = cfg[i][k]
            cfg[i][k] = (g[0], t[1] + t[3] / 2 - g[3] / 2 + delta, g[2], g[3])
        return cfg, "%s branch %d of %s slid %r beyond the trunk's corner" % (role, k, mods[i]["name"], delta)
    if kind in ("swapped", "branches-overlap"):
        cand = []
        for i, m in enumerate(mods):
            if m["kind"] != "soft":
                continue
            for side in "NSEW":
                ks = [q for q in range(1, len(cfg[i])) if roles[i][q] == side]
                ks.sort(key=lambda q: cfg[i][q][0 if side in "NS" else 1])
                for j in range(len(ks) - 1):  # every pair of neighbours along the side (1st-2nd, 2nd-3rd, ...)
                    cand.append((i, side, (ks[j], ks[j + 1])))
        p = choose(cand)
        if p is None:
            return None
        i, side, (a, b) = p
        ax = 0 if side in "NS" else 1
        ga, gb = cfg[i][a], cfg[i][b]
        if ga[ax] > gb[ax]:
            a, b, ga, gb = b, a, gb, ga
        sa, sb = ga[2 + ax], gb[2 + ax]
        lo = ga[ax] - sa / 2
        hi = gb[ax] + sb / 2
        if kind == "swapped":
            nb = lo + sb / 2  # b goes to the low end, a to the high end: same span, no overlap, inside the extent
            na = hi - sa / 2
            cfg[i][a] = tuple(na if q == ax else v for q, v in enumerate(ga))
            cfg[i][b] = tuple(nb if q == ax else v for q, v in enumerate(gb))
            return cfg, "%s branches %d and %d of %s swapped" % (side, a, b, mods[i]["name"])
        # overlap: put b on top of a (low end aligned)
        nb = lo + sb / 2
        cfg[i][b] = tuple(nb if q == ax else v for q, v in enumerate(gb))
        return cfg, "%s branch %d of %s moved onto branch %d" % (side, b, mods[i]["name"], a)
    if kind == "modules-overlap":
        if len(mods) < 2:
            return None
        movable = [i for i, m in enumerate(mods) if m["kind"] != "fixed"]
        i = choose(movable)
        if i is None:
            return None
        j = (i + 1 + pick // 7) % len(mods)
        if j == i:
            j = (i + 1) % len(mods)
        ti, tj = cfg[i][0], cfg[j][0]
        move(i, tj[0] - ti[0], tj[1] - ti[1])
        # keep the moved module inside the die (its branches could stick out): shift both checks to 'Inter' only
        xmin = min(g[0] - g[2] / 2 for g in cfg[i])
        ymin = min(g[1] - g[3] / 2 for g in cfg[i])
        xmax = max(g[0] + g[2] / 2 for g in cfg[i])
        ymax = max(g[1] + g[3] / 2 for g in cfg[i])
        if xmin < 0 or ymin < 0 or xmax > W or ymax > H:
            return None
        return cfg, "module %s moved onto module %s (trunk on trunk)" % (mods[i]["name"], mods[j]["name"])
    if kind in ("hard-resized", "hard-moved"):
        cand = [(i, k) for i, m in enumerate(mods) if m["kind"] == "hard" for k in range(1, len(cfg[i]))]
        if kind == "hard-resized":
            cand += [(i, 0) for i, m in enumerate(mods) if m["kind"] == "hard" and len(cfg[i]) == 1]
        p = choose(cand)
        if p is None:
            return None
        i, k = p
        g = cfg[i][k]
        role = roles[i][k]
        if kind == "hard-resized":
            if role in ("N", "S"):
                g2 = (g[0], g[1], g[2] * 0.7, g[3])
            elif role in ("E", "W"):
                g2 = (g[0], g[1], g[2], g[3] * 0.7)
            else:
                g2 = (g[0], g[1], g[2] * 0.8, g[3] * 0.8)
            cfg[i][k] = g2
            return cfg, "rectangle %d of hard module %s resized" % (k, mods[i]["name"])
        t = cfg[i][0]
        if role in "NS":
            room_hi = (t[0] + t[2] / 2) - (g[0] + g[2] / 2)
            room_lo = (g[0] - g[2] / 2) - (t[0] - t[2] / 2)
            others = [cfg[i][q] for q in range(1, len(cfg[i])) if roles[i][q] == role and q != k]
            if room_hi >= u and not any(o[0] > g[0] for o in others):
                cfg[i][k] = (g[0] + u, g[1], g[2], g[3])
            elif room_lo >= u and not any(o[0] < g[0] for o in others):
                cfg[i][k] = (g[0] - u, g[1], g[2], g[3])
            else:
                return None
        else:
            room_hi = (t[1] + t[3] / 2) - (g[1] + g[3] / 2)
            room_lo = (g[1] - g[3] / 2) - (t[1] - t[3] / 2)
            others = [cfg[i][q] for q in range(1, len(cfg[i])) if roles[i][q] == role and q != k]
            if room_hi >= u and not any(o[1] > g[1] for o in others):
                cfg[i][k] = (g[0], g[1] + u, g[2], g[3])
            elif room_lo >= u and not any(o[1] < g[1] for o in others):
                cfg[i][k] = (g[0], g[1] - u, g[2], g[3])
            else:
                return None
        return cfg, "branch %d of hard module %s moved one unit along its side" % (k, mods[i]["name"])
    if kind == "fixed-moved":
        i = choose([i for i, m in enumerate(mods) if m["kind"] == "fixed"])
        if i is None:
            return None
        if (pick // 3) % 2:
            move(i, u, 0)  # one unit: stays inside its slot (margin 2)
        else:
            move(i, 0, u)
        return cfg, "fixed module %s translated by one unit in %s" % (mods[i]["name"], "x" if (pick // 3) % 2 else "y")
    if kind == "hard-enlarged":
        # one dimension of one rectangle of a hard module grows (area and attachment are kept, only the shape changes)
        cand = [(i, k) for i, m in enumerate(mods) if m["kind"] == "hard" for k in range(len(cfg[i])) if k > 0 or len(cfg[i]) == 1]
        p = choose(cand)
        if p is None:
            return None
        i, k = p
        g = cfg[i][k]
        role = roles[i][k]
        R = float(c["ratio"])
        if role == "T":
            for g2 in ((g[0], g[1], g[2], g[3] * 1.25), (g[0], g[1], g[2] * 1.25, g[3])):
                if max(g2[2] / g2[3], g2[3] / g2[2]) <= R and g2[0] + g2[2] / 2 <= W and g2[1] + g2[3] / 2 <= H:
                    cfg[i][k] = g2
                    return cfg, "the single rectangle of hard module %s made 25%% %s" % (mods[i]["name"], "taller" if g2[3] > g[3] else "wider")
            return None
        t = cfg[i][0]
        ax = 0 if role in "NS" else 1
        others = [cfg[i][q] for q in range(1, len(cfg[i])) if roles[i][q] == role and q != k]
        lo_lim = max([t[ax] - t[2 + ax] / 2] + [o[ax] + o[2 + ax] / 2 for o in others if o[ax] < g[ax]])
        hi_lim = min([t[ax] + t[2 + ax] / 2] + [o[ax] - o[2 + ax] / 2 for o in others if o[ax] > g[ax]])
        room = min(g[ax] - g[2 + ax] / 2 - lo_lim, hi_lim - (g[ax] + g[2 + ax] / 2))
        if room < u / 2:
            return None
        size = g[2 + ax] + 2 * room
        g2 = tuple(size if q == 2 + ax else v for q, v in enumerate(g))
        if max(g2[2] / g2[3], g2[3] / g2[2]) > R:
            return None
        cfg[i][k] = g2
        return cfg, "%s branch %d of hard module %s enlarged along its side" % (role, k, mods[i]["name"])
    raise ValueError(kind)


def run_floorplan(c):
    try:
        nl, model = build_model(c)
    except Exception as e:
        raise Violation("building the legaliser model raised %s: %s for %s" % (type(e).__name__, str(e)[:300], doc_of(c)), "build-raised")
    try:
        maps = index_map(c, model)
        # the slack is annealed the way the legaliser does it: Model.time_advance() in one or several steps up to time 1000
        steps = c.get("advance") or [999.0]
        for dt in steps:
            model.time_advance(float(dt))
        if LF.get_epsilon() > 1e-30:
            raise RuntimeError("epsilon not annealed: %r" % LF.get_epsilon())
        cls = []
        # (i) the input configuration (for the legal configurations the time bookkeeping equation is evaluated too: a system
        # that no configuration can satisfy does not admit the legal floorplans either)
        bad = unmet(model, LEGAL_GROUPS + ("Exact Value",))
        if bad:
            raise Violation("the input configuration of a legal floorplan violates %s\nnetlist: %s die %sx%s ratio %s" % (
                bad[:6], doc_of(c), c["cols"] * c["S"], c["rows"] * c["S"], c["ratio"]), "legal-input-rejected:" + bad[0].split("/")[0])
        # (ii) another legal configuration
        assign(model, maps, config_of(c, 1))
        bad = unmet(model, LEGAL_GROUPS + ("Exact Value",))
        if bad:
            raise Violation("a legal configuration (same structure, soft reshaped, hard translated) violates %s\nnetlist: %s\nF1: %s" % (
                bad[:6], doc_of(c), config_of(c, 1)), "legal-config-rejected:" + bad[0].split("/")[0])
        # (iii) single-clause violations
        todo = []
        for kind, pick in c["viol"]:
            if kind == "ratio":
                todo += [(kind, p) for p in range(12)]  # every rectangle that can be thinned, not one of them
            else:
                todo.append((kind, pick))
        seen_desc = set()
        for kind, pick in todo:
            v = violate(c, kind, pick)
            if v is None:
                if (kind, pick) in [tuple(x) for x in c["viol"]] or kind != "ratio":
                    cls.append("no-place-for-" + kind)
                continue
            cfg, desc = v
            if desc in seen_desc:
                continue
            seen_desc.add(desc)
            assign(model, maps, cfg)
            bad = unmet(model)
            if not bad:
                raise Violation("an illegal configuration satisfies every equation: %s\nnetlist: %s\nconfiguration: %s" % (
                    desc, doc_of(c), cfg), "illegal-accepted:" + kind)
            cls.append("viol-" + kind)
            cls.append("viol-%s->%s" % (kind, sorted({b.split("/")[0] for b in bad})[0]))
        kinds = [m["kind"] for m in c["modules"]]
        for k in set(kinds):
            cls.append("kind-" + k)
        if any(m.get("split") and any(t != "_" for t, _ in m["split"]) for m in c["modules"]):
            cls.append("required-area-given-per-region")
        if any(m["floats"] for m in c["modules"]) and any(not m["floats"] for m in c["modules"]):
            cls.append("ints-and-floats")
        if any(m["kind"] == "hard" and sum(m["struct"].values()) > 0 for m in c["modules"]):
            cls.append("multi-rect-hard")
        if any(m["kind"] == "fixed" and sum(m["struct"].values()) > 0 for m in c["modules"]):
            cls.append("multi-rect-fixed")
        if any(sum(1 for v in m["struct"].values() if v >= 2) >= 2 for m in c["modules"]):
            cls.append("two-sides-with-two-branches")
        if any(v >= 3 for m in c["modules"] for v in m["struct"].values()):
            cls.append("three-branches-on-one-side")
        if any(m.get("order") and m["order"] != sorted(m["order"]) and m["kind"] != "soft" for m in c["modules"]):
            cls.append("hard-branches-listed-out-of-order")
        branch = any(sum(m["struct"].values()) > 0 for m in c["modules"])
        return dict(nt=len(kinds) >= 2 and branch, cls=cls)
    finally:
        cleanup(model)


@st.composite
def case_s(draw):
    c = draw(FP.floorplan())
    c["viol"] = [[draw(st.sampled_from(VIOLATIONS)), draw(_i(0, 40))] for _ in range(3)]
    c["advance"] = draw(st.sampled_from([[999], [1, 998], [1, 1, 1, 996], [0.5, 998.5], [499.5, 499.5]]))
    for m in c["modules"]:
        nb = sum(m["struct"].values())
        if nb >= 2 and draw(st.booleans()):
            m["order"] = list(draw(st.permutations(list(range(nb)))))
        if m["kind"] == "soft" and draw(_i(0, 2)) == 0:
            tags = draw(st.sampled_from([["_", "DSP"], ["LUT", "BRAM", "DSP"], ["DSP"], ["_"], ["BRAM", "_"]]))
            m["split"] = [[t, draw(_i(1, 5))] for t in tags]
    return c


def subchecks():
    return [Sub("floorplans", run_floorplan, strategy=case_s(), n_quick=3000, n_thorough=60000, shrink_quick=True,
                required=tuple("viol-" + k for k in VIOLATIONS) + ("kind-soft", "kind-hard", "kind-fixed", "multi-rect-hard",
                                                                    "multi-rect-fixed", "ints-and-floats", "two-sides-with-two-branches", "hard-branches-listed-out-of-order", "three-branches-on-one-side",
                                                                    "required-area-given-per-region"))]
