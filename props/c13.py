"""C13  Force-directed relocation: fixed modules stay, centres stay in the die (tools/force/fruchterman_reingold.py)."""
import copy
import os
import sys
import math
from fractions import Fraction as Fr

import mpmath
from hypothesis import strategies as st

from frame.die.die import Die
from frame.netlist.netlist import Netlist
from gen import design as D
from gen import lattice as L
from tools.force.fruchterman_reingold import force_algorithm, fruchterman_reingold_layout
from vfw import exact as X
from vfw.core import Sub, Violation

PROP = "C13"
RULE = ("a die WxH (lattice sizes, dyadic and decimal units) with 2-7 modules: soft with area and centre (coincident centres, "
        "centres on the border and in the corners), fixed (disjoint rectangles accepted by Die), terminals with centres inside "
        "or on the border; nets of arity 2-5 with weights.  layout: fruchterman_reingold_layout(die, kappa in [0.1, 3], max_iter "
        "0..25): fixed modules have not moved (1e-9 x die size), every centre finite and inside the die, nothing but centres "
        "changed, the wire length the result reports is the one of its centres (also when the caller read it before), and the same call "
        "on a deep copy gives bit-identical centres.  bestof: force_algorithm(max_iter 1..8): the "
        "returned layout is one of the twelve layouts of kappa 0.4..1.5 and its cost (sum over ordered pairs of the mpmath lens "
        "area + wire length / 2) is minimal among them up to the accuracy C17 grants the tool's own disc formula.  "
        "non-trivial = >= 1 fixed and >= 2 movable modules and >= 1 net (layout); two kappas with costs differing by > 1e-3 "
        "relative (bestof); distinct = distinct case.")
ASSUMPTIONS = [
    "every module has a centre (the tool's precondition); fixed modules are rectangles inside the die",
    "the visualize subcheck uses no movable module with rectangles: on the unchanged tree the drawing code re-derives the centre of such a module from its rectangles at every picture, so the option does change their layout (noted, not asserted: the statement does not mention the option)",
    "best-of tolerance: n(n-1) x 1e-5 x Rmax^2 + 1e-9 (1 + |min cost|): two kappas closer than the accuracy of the tool's disc-overlap formula may be ranked either way",
    "the twelve candidate layouts are produced with the real (deterministic) layout function on deep copies; only the cost is recomputed independently",
]
_i = st.integers
mpmath.mp.dps = 40


def build(c):
    unit = c["unit"]
    u = Fr(unit)
    mods = {}
    for m in c["modules"]:
        if m["kind"] == "soft":
            mods[m["name"]] = {"area": X.num(m["area"] * u * u), "center": [X.num(m["c"][0] * u / 2), X.num(m["c"][1] * u / 2)]}
        elif m["kind"] == "fixed":
            mods[m["name"]] = {"fixed": True, "rectangles": [D.rect_entry(r, unit) for r in m["rects"]]}
        elif m["kind"] == "hard":
            # a movable hard block: its centre is the one of its rectangles; the relocation moves the centre only
            mods[m["name"]] = {"hard": True, "rectangles": [D.rect_entry(r, unit) for r in m["rects"]]}
        else:
            mods[m["name"]] = {"terminal": True, "center": [X.num(m["c"][0] * u / 2), X.num(m["c"][1] * u / 2)]}
    nets = [list(e["m"]) + ([e["w"]] if e["w"] is not None else []) for e in c["nets"]]
    nl = Netlist({"Modules": mods, "Nets": nets})
    die = Die("%sx%s" % (X.dec(c["W"] * u), X.dec(c["H"] * u)), nl)
    if c.get("squares") and not any(m["kind"] == "terminal" for m in c["modules"]):
        nl.create_squares()  # every soft module gets its default square before the relocation (the square shares the centre object)
    if c.get("share_points"):
        seen = {}
        for m in nl.modules:
            if not m.is_fixed and not m.rectangles and m.center is not None:
                k = (m.center.x, m.center.y)
                if k in seen:
                    m.center = seen[k]  # coincident centres given as ONE Point object
                else:
                    seen[k] = m.center
    if c.get("noise"):
        # the force stage perturbs every centre IN PLACE before the relocation (add_noise), fixed modules included: where a module is
        # when the relocation starts is where its centre says, and that is where a fixed module stays
        W, H = die.width, die.height
        for m, (dx, dy) in zip(nl.modules, c["noise"] * len(nl.modules)):
            if m.center is None:
                continue
            nx, ny = m.center.x + dx * float(u) / 64, m.center.y + dy * float(u) / 64
            if 0 <= nx <= W and 0 <= ny <= H:
                m.center.x, m.center.y = nx, ny
    return die


def describe(nl):
    mods = []
    for m in nl.modules:
        mods.append((m.name, m.is_soft, m.is_hard, m.is_fixed, m.is_terminal, m.flip, dict(m.area_regions), m.area(),
                     None if m.aspect_ratio is None else (m.aspect_ratio.min_wh, m.aspect_ratio.max_wh),
                     [(r.center.x, r.center.y, r.shape.w, r.shape.h, r.region, r.fixed, r.hard) for r in m.rectangles]))
    nets = [([b.name for b in e.modules], e.weight) for e in nl.edges]
    return mods, nets


def centres(nl):
    return [(m.center.x, m.center.y) for m in nl.modules]


def check_result(c, die0_desc, centres0, die, what):
    W, H = die.width, die.height
    size = max(W, H)
    nl = die.netlist
    if describe(nl) != die0_desc:
        raise Violation("%s: something other than centres changed (modules, areas, rectangles or nets)" % what, "non-centre-changed")
    for m, (x0, y0) in zip(nl.modules, centres0):
        if m.center is None or not (math.isfinite(m.center.x) and math.isfinite(m.center.y)):
            raise Violation("%s: centre of %s is %s" % (what, m.name, m.center), "centre-not-finite")
        if not (-1e-9 * size <= m.center.x <= W + 1e-9 * size and -1e-9 * size <= m.center.y <= H + 1e-9 * size):
            raise Violation("%s: centre of %s %s lies outside the %r x %r die" % (what, m.name, m.center, W, H), "centre-outside")
        if m.is_fixed and (abs(m.center.x - x0) > 1e-9 * size or abs(m.center.y - y0) > 1e-9 * size):
            raise Violation("%s: fixed module %s moved from (%r, %r) to %s" % (what, m.name, x0, y0, m.center), "fixed-moved")
    # the nets are the same nets on the moved modules: the wire length the result reports is the one of its centres
    wl = mpmath.mpf(0)
    for e in nl.edges:
        pts = [(mpmath.mpf(b.center.x), mpmath.mpf(b.center.y)) for b in e.modules]
        mx, my = sum(p[0] for p in pts) / len(pts), sum(p[1] for p in pts) / len(pts)
        wl += mpmath.mpf(e.weight) * sum(mpmath.sqrt((p[0] - mx) ** 2 + (p[1] - my) ** 2) for p in pts)
    if abs(mpmath.mpf(nl.wire_length) - wl) > mpmath.mpf(1e-9) * (abs(wl) + size):
        raise Violation("%s: the returned netlist reports wire length %r, its centres and nets give %s" % (what, nl.wire_length, mpmath.nstr(wl, 15)),
                        "wire-length-of-the-result")


def run_layout(c):
    try:
        die = build(c)
    except Exception as e:
        raise RuntimeError("generator produced a rejected design: %s: %s\n%s" % (type(e).__name__, e, c))
    desc0, cen0 = describe(die.netlist), centres(die.netlist)
    if c.get("read_first"):
        die.netlist.wire_length  # (the caller reports the initial wire length before relocating)
    twin = copy.deepcopy(die)
    kappa, it = float(c["kappa"]), int(c["max_iter"])
    what = "fruchterman_reingold_layout(kappa=%r, max_iter=%d)" % (kappa, it)
    try:
        out, _ = fruchterman_reingold_layout(die, kappa, False, None, it)
    except Exception as e:
        raise Violation("%s raised %s: %s on %s" % (what, type(e).__name__, e, c["modules"]), "raised")
    if out.netlist is None:
        raise Violation("%s returned a die without netlist" % what, "no-netlist")
    check_result(c, desc0, cen0, out, what)
    try:
        out2, _ = fruchterman_reingold_layout(twin, kappa, False, None, it)
    except Exception as e:
        raise Violation("%s raised %s: %s when repeated on a copy" % (what, type(e).__name__, e), "raised")
    if centres(out2.netlist) != centres(out.netlist):
        raise Violation("%s is not deterministic: %s vs %s" % (what, centres(out.netlist), centres(out2.netlist)), "not-deterministic")
    kinds = [m["kind"] for m in c["modules"]]
    moved = sum(1 for (a, b) in zip(cen0, centres(out.netlist)) if a != b)
    cls = ["movable-hard-module"] if "hard" in kinds else []
    if moved:
        cls.append("something-moved")
    if len({tuple(m["c"]) for m in c["modules"] if m["kind"] != "fixed"}) < sum(1 for k in kinds if k != "fixed"):
        cls.append("coincident-centres")
    if any(m["kind"] != "fixed" and (m["c"][0] in (0, 2 * c["W"]) or m["c"][1] in (0, 2 * c["H"])) for m in c["modules"]):
        cls.append("centre-on-border")
    if "terminal" in kinds:
        cls.append("terminal")
    if it == 0:
        cls.append("zero-iterations")
    if c.get("squares") and "terminal" not in kinds:
        cls.append("squares-created-before")
    if c.get("share_points"):
        cls.append("shared-point-objects")
    if c.get("read_first") and c["nets"]:
        cls.append("wire-length-read-before")
    if c.get("noise") and "fixed" in kinds:
        cls.append("centres-perturbed-in-place-before")
    return dict(nt=kinds.count("fixed") >= 1 and len(kinds) - kinds.count("fixed") >= 2 and len(c["nets"]) >= 1, cls=cls)


def lens(c1, r1, c2, r2):
    m = mpmath.mpf
    d = mpmath.sqrt((m(c1[0]) - m(c2[0])) ** 2 + (m(c1[1]) - m(c2[1])) ** 2)
    r1, r2 = m(r1), m(r2)
    if d >= r1 + r2:
        return m(0)
    if d <= abs(r1 - r2):
        return mpmath.pi * min(r1, r2) ** 2
    a = mpmath.acos((r1 * r1 + d * d - r2 * r2) / (2 * r1 * d))
    b = mpmath.acos((r2 * r2 + d * d - r1 * r1) / (2 * r2 * d))
    return r1 * r1 * a + r2 * r2 * b - d * r1 * mpmath.sin(a)


def my_cost(nl):
    m = mpmath.mpf
    mods = nl.modules
    rad = [mpmath.sqrt(m(x.area()) / mpmath.pi) for x in mods]
    tot = m(0)
    for i in range(len(mods)):
        for j in range(len(mods)):
            if i != j:
                tot += lens((mods[i].center.x, mods[i].center.y), rad[i], (mods[j].center.x, mods[j].center.y), rad[j])
    wl = m(0)
    for e in nl.edges:
        pts = [(m(b.center.x), m(b.center.y)) for b in e.modules]
        mx = sum(p[0] for p in pts) / len(pts)
        my = sum(p[1] for p in pts) / len(pts)
        wl += m(e.weight) * sum(mpmath.sqrt((p[0] - mx) ** 2 + (p[1] - my) ** 2) for p in pts)
    return tot + wl / 2, max(rad) if rad else m(0)


def run_bestof(c):
    die = build(c)
    desc0, cen0 = describe(die.netlist), centres(die.netlist)
    if c.get("read_first"):
        die.netlist.wire_length
    it = int(c["max_iter"])
    cands = []
    for kappa in [i / 10 for i in range(4, 16)]:
        try:
            d2, _ = fruchterman_reingold_layout(copy.deepcopy(die), kappa, False, None, it)
        except Exception as e:
            raise Violation("fruchterman_reingold_layout(kappa=%r, max_iter=%d) raised %s: %s on %s" % (kappa, it, type(e).__name__, e, c["modules"]), "raised")
        cost, rmax = my_cost(d2.netlist)
        cands.append((kappa, centres(d2.netlist), cost, rmax))
    try:
        out, _ = force_algorithm(die, False, None, it)
    except Exception as e:
        raise Violation("force_algorithm(max_iter=%d) raised %s: %s" % (it, type(e).__name__, e), "raised")
    check_result(c, desc0, cen0, out, "force_algorithm(max_iter=%d)" % it)
    got = centres(out.netlist)
    match = [k for k in cands if k[1] == got]
    if not match:
        raise Violation("force_algorithm(max_iter=%d) returned centres %s which are not the layout of any kappa in 0.4..1.5" % (it, got),
                        "bestof-not-a-candidate")
    n = len(die.netlist.modules)
    best = min(k[2] for k in cands)
    rmax = max(k[3] for k in cands)
    tol = n * (n - 1) * mpmath.mpf(1e-5) * rmax ** 2 + mpmath.mpf(1e-9) * (1 + abs(best))
    mine = min(k[2] for k in match)
    if mine > best + tol:
        raise Violation("force_algorithm(max_iter=%d) returned the layout of kappa %s with cost %s; kappa %s gives %s" % (
            it, [k[0] for k in match], mpmath.nstr(mine, 12), [k[0] for k in cands if k[2] == best], mpmath.nstr(best, 12)), "bestof-not-minimal")
    spread = max(k[2] for k in cands) - best
    return dict(nt=spread > mpmath.mpf(1e-3) * (1 + abs(best)), cls=["bestof-spread" if spread > tol else "bestof-flat"])


@st.composite
def design_s(draw, bestof=False):
    unit = draw(st.sampled_from(["1", "0.5", "0.125", "2", "16", "0.1", "0.3", "2.5", "7", "0.01"]))
    W, H = draw(_i(2, 12)), draw(_i(2, 12))
    nfix = draw(st.sampled_from([0, 1, 1, 2]))
    pack = draw(L.packing(W, H, 0, 2 * nfix, max(1, min(W, H) // 2))) if nfix else []
    mods = []
    k = 0
    while pack and len([m for m in mods if m["kind"] == "fixed"]) < nfix:
        take = 2 if len(pack) >= 2 and draw(st.booleans()) else 1
        mods.append(dict(name="F%d" % k, kind="fixed", rects=pack[:take]))
        pack = pack[take:]
        k += 1
    nmov = draw(_i(2, 5))
    pts = [[draw(_i(0, 2 * W)), draw(_i(0, 2 * H))] for _ in range(nmov)]
    for i in range(nmov):
        s = draw(_i(0, 6))
        if s == 0 and i > 0:
            pts[i] = list(pts[i - 1])  # coincident
        elif s == 1:
            pts[i] = [draw(st.sampled_from([0, 2 * W])), draw(st.sampled_from([0, 2 * H]))]  # corner
        elif s == 2:
            pts[i][draw(_i(0, 1))] = 0  # on a border
        kind = draw(st.sampled_from(["terminal", "soft", "soft", "soft", "hard"]))
        m = dict(name="%s%d" % ({"terminal": "T", "hard": "H"}.get(kind, "M"), i), kind=kind, c=pts[i])
        if kind == "soft":
            m["area"] = draw(_i(1, max(1, W * H // 2)))
        if kind == "hard":
            x0, y0 = draw(_i(0, max(0, W - 2))), draw(_i(0, max(0, H - 2)))
            m["rects"] = [[x0, y0, x0 + draw(_i(1, 2)), y0 + draw(_i(1, 2))]]
            if draw(st.booleans()) and m["rects"][0][3] + 1 <= H:
                m["rects"].append([x0, m["rects"][0][3], x0 + 1, m["rects"][0][3] + 1])
        mods.append(m)
    if draw(st.booleans()):
        mods = draw(st.permutations(mods))
    names = [m["name"] for m in mods]
    nets = []
    for _ in range(draw(_i(0, 5))):
        ar = draw(st.sampled_from([2, 2, 3, 4, 5]))
        nets.append(dict(m=[names[draw(_i(0, len(names) - 1))] for _ in range(ar)], w=draw(st.sampled_from([None, None, 1, 2, 0.5, 10, 3.5]))))
    c = dict(unit=unit, W=W, H=H, modules=list(mods), nets=nets, squares=draw(_i(0, 2)) == 0, share_points=draw(_i(0, 2)) == 0,
             read_first=draw(_i(0, 2)) == 0,
             noise=[[draw(_i(-3, 3)), draw(_i(-3, 3))] for _ in range(3)] if draw(_i(0, 2)) == 0 else None)
    if bestof:
        c["max_iter"] = draw(_i(1, 8))
    else:
        c["kappa"] = draw(st.sampled_from([0.1, 0.4, 0.7, 1.0, 1.5, 3.0, 2.2]))
        c["max_iter"] = draw(st.sampled_from([0, 1, 2, 5, 10, 25, 25, 100]))
    return c


def run_visualize(c):
    """The visualisation option (one picture per iteration) does not change the layout; iteration counts around the default."""
    die = build(c)
    desc0, cen0 = describe(die.netlist), centres(die.netlist)
    twin = copy.deepcopy(die)
    kappa, it = float(c["kappa"]), int(c["max_iter"])
    what = "fruchterman_reingold_layout(kappa=%r, max_iter=%d, visualize=...)" % (kappa, it)
    try:
        plain, _ = fruchterman_reingold_layout(twin, kappa, False, None, it)
    except Exception as e:
        raise Violation("fruchterman_reingold_layout(kappa=%r, max_iter=%d) raised %s: %s" % (kappa, it, type(e).__name__, e), "raised")
    try:
        out, imgs = fruchterman_reingold_layout(die, kappa, False, "layout", it)
    except Exception as e:
        raise Violation("%s raised %s: %s" % (what, type(e).__name__, e), "raised")
    check_result(c, desc0, cen0, out, what)
    size = max(die.width, die.height)
    a, b = centres(out.netlist), centres(plain.netlist)
    if any(abs(p[0] - q[0]) > 1e-9 * size or abs(p[1] - q[1]) > 1e-9 * size for p, q in zip(a, b)):
        raise Violation("%s returns centres %s, the same call without visualisation %s" % (what, a, b), "visualize-changes-the-layout")
    return dict(nt=it >= 100, cls=["max_iter>=100" if it >= 100 else "max_iter<100", "pictures=%s" % ("some" if imgs else "none")])


_CHILD = """
import json, sys
from vfw import core
core.ensure_repo_on_path()
from props import c13
c = json.loads(sys.stdin.read())
die = c13.build(c)
out, _ = c13.fruchterman_reingold_layout(die, float(c["kappa"]), False, None, int(c["max_iter"]))
print(json.dumps(c13.centres(out.netlist)))
"""


def run_hashseed(c):
    """Deterministic also means: the same in another interpreter.  The layout is computed in two child interpreters started with
    different string-hash seeds (the order of sets and of dicts keyed by strings differs between them)."""
    import json
    import subprocess
    res = []
    for hs in ("1", "2"):
        env = dict(os.environ, PYTHONHASHSEED=hs)
        r = subprocess.run([sys.executable, "-c", _CHILD], input=json.dumps(c), capture_output=True, text=True, env=env, timeout=600)
        if r.returncode != 0:
            raise RuntimeError("child interpreter failed: %s" % r.stderr[-1500:])
        res.append(json.loads(r.stdout.strip().splitlines()[-1]))
    if res[0] != res[1]:
        k = next(i for i, (a, b) in enumerate(zip(res[0], res[1])) if a != b)
        raise Violation("fruchterman_reingold_layout(kappa=%r, max_iter=%d) gives other centres in another interpreter (PYTHONHASHSEED 1 vs 2): "
                        "module #%d is at %s and at %s" % (c["kappa"], c["max_iter"], k, res[0][k], res[1][k]), "not-deterministic-across-interpreters")
    big = any(len(set(e["m"])) >= 3 for e in c["nets"])
    return dict(nt=big, cls=["net-with-3+-distinct-modules"] if big else ["small-nets"])


@st.composite
def hashseed_s(draw):
    c = draw(design_s(False))
    c["max_iter"] = draw(st.sampled_from([10, 25, 60]))
    return c


@st.composite
def visualize_s(draw):
    c = draw(design_s(False))
    c["max_iter"] = draw(st.sampled_from([100, 100, 150, 200, 120, 101, 30]))
    # (modules that carry rectangles are fixed in this generator; the drawing code re-derives centres from rectangles)
    c["squares"] = False
    for m in c["modules"]:
        if m["kind"] == "hard":
            m["kind"], m["area"] = "soft", sum((r[2] - r[0]) * (r[3] - r[1]) for r in m.pop("rects"))
    return c


def subchecks():
    return [
        Sub("visualize", run_visualize, strategy=visualize_s(), n_quick=48, n_thorough=1200, shrink_quick=False, shrink_thorough=False,
            required=("max_iter>=100",), case_timeout=300,
            desc="the same layout call with and without the visualize option, iteration counts 30-200 (the default is 100)"),
        Sub("hashseed", run_hashseed, strategy=hashseed_s(), n_quick=32, n_thorough=600, shrink_quick=False, shrink_thorough=False,
            required=("net-with-3+-distinct-modules",), case_timeout=600,
            desc="the same layout in two child interpreters with different PYTHONHASHSEED values"),
        Sub("layout", run_layout, strategy=design_s(False), n_quick=6000, n_thorough=60000,
            required=("something-moved", "coincident-centres", "centre-on-border", "terminal", "movable-hard-module", "zero-iterations", "squares-created-before",
                      "shared-point-objects", "wire-length-read-before", "centres-perturbed-in-place-before")),
        Sub("bestof", run_bestof, strategy=design_s(True), n_quick=800, n_thorough=8000, shrink_quick=False,
            required=("bestof-spread",)),
    ]
