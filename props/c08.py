"""C08  Rectilinear shape search admits exactly the k-box single-trunk orthogons (tools/rect/rect.py)."""
import contextlib
import io
import itertools
from fractions import Fraction as Fr

from hypothesis import strategies as st
from pysat.solvers import Solver

import tools.rect.rect as R
from tools.rect import satmanager
from vfw.core import Sub, Violation

PROP = "C08"
RULE = ("a full grid of cells: 1-4 columns x 1-4 rows, column/row boundaries = origin + partial sums of gaps (multiples of 0.5; "
        "uniform or not; origin 0 or not; integer or fractional extent), occupancy per cell a multiple of 1/4, k in {1,2,3}.  "
        "models: the formula is built as solve() does (enforce_bb per box + per-cell at-most-one) and ALL its models are "
        "enumerated with blocking clauses, projected on the per-box cell variables; the set must equal my own enumeration of "
        "k-tuples (trunk, branches) of non-empty full rectangles of cells, pairwise disjoint, each branch abutting the trunk along "
        "one whole side of the branch inside the trunk's extent.  solve: rect.solve(carrier, ifile, 2.0, (b, 1), k) for bounds b "
        "from below the minimum to above the maximum attainable cost.  fromalloc: generated allocations (tree or text form) through "
        "rect_io.get_alloc and select_box for every module and for an absent one; the blocks must be the cells, in order, with the "
        "module's ratio.  non-trivial = >= 4 cells and k >= 2; distinct = distinct case.")
ASSUMPTIONS = [
    "the grid is complete (every cell of the rows x columns grid is a block), as select_box builds it from a gridded allocation",
    "coordinates are multiples of 0.5 and occupancies multiples of 1/4 with factor 16, so that int(factor*p*w*h) is exact",
    "GreedyManager (a Windows DLL loader) is replaced by a stub; enforce_bb / solve / definecoords / area never use it",
    "PySAT is trusted for the model enumeration",
]
_i = st.integers


class _Stub:
    def __init__(self):
        pass


def carrier_for(c, car=None):
    R.GreedyManager = _Stub
    if car is None:
        car = R.Carrier()
    xs = [Fr(c["ox"]) / 2]
    for g in c["gx"]:
        xs.append(xs[-1] + Fr(g) / 2)
    ys = [Fr(c["oy"]) / 2]
    for g in c["gy"]:
        ys.append(ys[-1] + Fr(g) / 2)
    cells = []  # (row, col) in the order of the blocks
    ip = []
    order = [(r, cc) for r in range(len(ys) - 1) for cc in range(len(xs) - 1)]
    if c.get("perm"):
        order = [order[i] for i in c["perm"]]
    for (r, cc) in order:
        p = c["occ"][r][cc] / 4
        ip.append((float(xs[cc]), float(ys[r]), float(xs[cc + 1]), float(ys[r + 1]), p))
        cells.append((r, cc))
    car.input_problem = ip
    car.factor = 16
    R.definecoords(car)
    car.theoreticalBestArea = sum(R.area(car, b, True) for b in car.blocks)
    # what get_alloc reports: size of the bounding box
    ifile = {"Width": float(xs[-1] - xs[0]), "Height": float(ys[-1] - ys[0])}
    return car, ifile, cells, xs, ys


def rects_of(nr, nc):
    return [(r0, r1, c0, c1) for r0 in range(nr) for r1 in range(r0, nr) for c0 in range(nc) for c1 in range(c0, nc)]


def cellset(q):
    return frozenset((r, cc) for r in range(q[0], q[1] + 1) for cc in range(q[2], q[3] + 1))


def attached(t, b):
    """branch b abuts trunk t along one whole side of b, inside t's extent"""
    tr0, tr1, tc0, tc1 = t
    br0, br1, bc0, bc1 = b
    rows_in = tr0 <= br0 and br1 <= tr1
    cols_in = tc0 <= bc0 and bc1 <= tc1
    return (rows_in and (bc0 == tc1 + 1 or bc1 == tc0 - 1)) or (cols_in and (br0 == tr1 + 1 or br1 == tr0 - 1))


def admitted_shapes(nr, nc, k):
    """set of k-tuples of frozensets of cells"""
    allr = rects_of(nr, nc)
    out = set()
    for t in allr:
        ts = cellset(t)
        cands = [(b, cellset(b)) for b in allr if attached(t, b)]
        cands = [(b, s) for b, s in cands if not (s & ts)]
        for combo in itertools.product(cands, repeat=k - 1):
            sets = [s for _, s in combo]
            ok = True
            for i in range(len(sets)):
                for j in range(i + 1, len(sets)):
                    if sets[i] & sets[j]:
                        ok = False
            if ok:
                out.add((ts,) + tuple(sets))
    return out


def build_formula(car, ifile, k):
    sm = satmanager.SATManager()
    for i in range(k):
        R.enforce_bb(car, ifile, sm, "b%d_" % i, "b0_")
    for b in car.blocks:
        sm.heuleencoding([sm.newvar("b%d_%d" % (t, b), "") for t in range(k)])
    return sm


def run_models(c):
    car, ifile, cells, xs, ys = carrier_for(c)
    if c.get("other"):
        # a second Carrier is prepared for another module's grid before the first one is searched (two modules in flight)
        carrier_for(c["other"])
    nr, nc = len(ys) - 1, len(xs) - 1
    k = c["k"]
    try:
        sm = build_formula(car, ifile, k)
    except Exception as e:
        raise Violation("building the formula raised %s: %s for grid x=%s y=%s k=%d" % (type(e).__name__, e, fl(xs), fl(ys), k), "build-raised")
    names = {}
    cnf = []
    for cl in sm.clauses:
        cc = []
        for l in cl:
            if l.v not in names:
                names[l.v] = len(names) + 1
            cc.append(names[l.v] if l.s else -names[l.v])
        cnf.append(cc)
    proj = {}
    for t in range(k):
        for b in car.blocks:
            nm = "b%d_%d" % (t, b)
            if nm not in names:
                names[nm] = len(names) + 1
            proj[(t, b)] = names[nm]
    got = set()
    s = Solver(bootstrap_with=cnf)
    try:
        n = 0
        while s.solve():
            model = set(v for v in s.get_model() if v > 0)
            shape = tuple(frozenset(cells[b] for b in car.blocks if proj[(t, b)] in model) for t in range(k))
            got.add(shape)
            s.add_clause([-proj[(t, b)] if proj[(t, b)] in model else proj[(t, b)] for t in range(k) for b in car.blocks])
            n += 1
            if n > 400000:
                raise RuntimeError("model enumeration exploded")
    finally:
        s.delete()
    want = admitted_shapes(nr, nc, k)
    if got != want:
        spurious = sorted(got - want, key=lambda sh: sum(len(x) for x in sh))
        missing = sorted(want - got, key=lambda sh: sum(len(x) for x in sh))
        ex = spurious[0] if spurious else missing[0]
        raise Violation("grid x=%s y=%s, k=%d: the formula admits %d shapes, %d k-box single-trunk orthogons exist; %d spurious, %d "
                        "missing; e.g. %s boxes %s" % (fl(xs), fl(ys), k, len(got), len(want), len(spurious), len(missing),
                                                          "spurious" if spurious else "missing", [sorted(x) for x in ex]),
                        "spurious-shape" if spurious else "missing-shape")
    cls = ["k=%d" % k]
    if c["ox"] or c["oy"]:
        cls.append("origin!=0")
    if max(c["ox"], c["oy"]) >= 200000:
        cls.append("coordinates-with-7+-significant-digits")
    if c.get("other"):
        cls.append("another-carrier-prepared-in-between")
    if (xs[-1] - xs[0]).denominator != 1 or (ys[-1] - ys[0]).denominator != 1:
        cls.append("fractional-extent")
    if len(set(c["gx"])) > 1 or len(set(c["gy"])) > 1:
        cls.append("non-uniform")
    if c.get("perm"):
        cls.append("blocks-permuted")
    return dict(nt=nr * nc >= 4 and k >= 2, cls=cls)


def fl(v):
    return [float(x) for x in v]


def run_solve(c):
    car = None
    if c.get("fill"):
        from props.c07 import fill_store
        fill_store()  # (a long run of the tool: tens of thousands of diagram nodes are in the process-wide store already)
    if c.get("prev"):
        # rect.main keeps ONE Carrier and loads one module after the other into it: an earlier module (another
        # occupancy, possibly another grid) is solved on the same object first
        car, ifile0, _, _, _ = carrier_for(c["prev"])
        if car.theoreticalBestArea > 0:
            try:
                with contextlib.redirect_stdout(io.StringIO()):
                    R.solve(car, ifile0, 2.0, (int(c["prev"].get("b", 0)), 1), c["prev"]["k"])
            except Exception:
                pass
    car, ifile, cells, xs, ys = carrier_for(c, car)
    if car.theoreticalBestArea <= 0:
        return dict(nt=False, cls=["empty-occupancy"])
    nr, nc = len(ys) - 1, len(xs) - 1
    k = c["k"]
    sel = {cells[b]: R.area(car, b, True) for b in car.blocks}
    real = {cells[b]: R.area(car, b, False) for b in car.blocks}
    # my own integer evaluation (exact by construction of the case)
    for b in car.blocks:
        r, cc = cells[b]
        w, h = xs[cc + 1] - xs[cc], ys[r + 1] - ys[r]
        if sel[(r, cc)] != 16 * Fr(c["occ"][r][cc], 4) * w * h or real[(r, cc)] != 16 * w * h:
            raise Violation("area() of cell %s (x %s..%s, y %s..%s, occupancy %s/4, factor 16) is %r / %r; the cost coefficients must be %s / %s%s" % (
                (r, cc), float(xs[cc]), float(xs[cc + 1]), float(ys[r]), float(ys[r + 1]), c["occ"][r][cc], sel[(r, cc)], real[(r, cc)],
                16 * Fr(c["occ"][r][cc], 4) * w * h, 16 * w * h, " (the same Carrier solved another module before)" if c.get("prev") else ""),
                "cost-coefficients")
    shapes = admitted_shapes(nr, nc, k)
    cost = {}
    for sh in shapes:
        u = frozenset().union(*sh)
        cost[sh] = 2 * sum(sel[x] for x in u) - sum(real[x] for x in u)
    lo, hi = (min(cost.values()), max(cost.values())) if cost else (0, 0)
    bound = {"below": lo - 3, "min": lo, "mid": (lo + hi) // 2, "max": hi, "above": hi + 1}[c["bound"]]
    try:
        with contextlib.redirect_stdout(io.StringIO()):
            last, rects, quality = R.solve(car, ifile, 2.0, (int(bound), 1), k)
    except Exception as e:
        raise Violation("solve raised %s: %s (grid x=%s y=%s occ=%s k=%d bound=%d)" % (
            type(e).__name__, e, fl(xs), fl(ys), c["occ"], k, bound), "solve-raised")
    exists = any(v >= bound for v in cost.values())
    what = "grid x=%s y=%s occupancy(/4)=%s k=%d bound=%d" % (fl(xs), fl(ys), c["occ"], k, bound)
    if not rects:
        if exists:
            raise Violation("%s: solve found nothing but a shape of cost %d exists" % (what, hi), "solve-missed")
        return dict(nt=nr * nc >= 4 and k >= 2, cls=["unsat", "bound-" + c["bound"]] + ([] if cost else ["no-shape-exists"]) + (["carrier-reused"] if c.get("prev") else []))
    if not exists:
        raise Violation("%s: solve returned %s but no admitted shape reaches the bound (max %d)" % (what, rects, hi), "solve-invented")
    # the rectangles are the boxes of an admitted shape
    if len(rects) != k:
        raise Violation("%s: solve returned %d rectangles" % (what, len(rects)), "solve-rect-count")
    boxes = []
    for (x0, y0, x1, y1) in rects:
        try:
            c0, c1 = [float(v) for v in xs].index(x0), [float(v) for v in xs].index(x1) - 1
            r0, r1 = [float(v) for v in ys].index(y0), [float(v) for v in ys].index(y1) - 1
        except ValueError:
            raise Violation("%s: returned rectangle %s is not aligned with the grid" % (what, (x0, y0, x1, y1)), "solve-rect-off-grid")
        if c1 < c0 or r1 < r0:
            raise Violation("%s: returned rectangle %s is empty" % (what, (x0, y0, x1, y1)), "solve-rect-empty")
        boxes.append(cellset((r0, r1, c0, c1)))
    sh = tuple(boxes)
    if sh not in shapes:
        raise Violation("%s: returned rectangles %s are not the boxes of a %d-box single-trunk orthogon" % (what, rects, k), "solve-not-admitted")
    if cost[sh] < bound or last != (cost[sh] + 1, 1):
        raise Violation("%s: returned shape %s has cost %d, solve reports %s (bound %d)" % (what, rects, cost[sh], last, bound), "solve-cost")
    return dict(nt=nr * nc >= 4 and k >= 2, cls=["sat", "bound-" + c["bound"]] + (["carrier-reused"] if c.get("prev") else []))


@st.composite
def grid_s(draw, max_dim=3, ks=(1, 2, 2, 3), max_cells_k3=9):
    nc, nr = draw(_i(1, max_dim)), draw(_i(1, max_dim))
    k = draw(st.sampled_from(ks))
    if k == 3 and nc * nr > max_cells_k3:
        k = 2
    if k == 2 and nc * nr <= 6 and draw(_i(0, 3)) == 0:
        k = 4  # more boxes than the tool asks for today: the per-cell at-most-one groups then have 4 literals (chained encoding)
    uniform = draw(st.booleans())
    g = draw(st.sampled_from([1, 2, 3, 4]))
    gx = [g] * nc if uniform else [draw(st.sampled_from([1, 2, 3, 5])) for _ in range(nc)]
    gy = [g] * nr if uniform else [draw(st.sampled_from([1, 2, 4])) for _ in range(nr)]
    # origins in half units; the large ones give coordinates with 7-9 significant digits (100000.5, 1000001, 12345678.5)
    ox = draw(st.sampled_from([0, 0, 0, 1, 4, 7, 200000, 2000001, 24691357]))
    oy = draw(st.sampled_from([0, 0, 0, 2, 3, 200001, 2000000]))
    occ = [[draw(_i(0, 4)) for _ in range(nc)] for _ in range(nr)]
    perm = draw(st.permutations(list(range(nc * nr)))) if draw(_i(0, 3)) == 0 else None
    c = dict(gx=gx, gy=gy, ox=ox, oy=oy, occ=occ, k=k, perm=perm)
    if draw(_i(0, 3)) == 0:
        # the grid of another module: this one extended by a column and a row, or an unrelated one
        if draw(st.booleans()):
            c["other"] = dict(gx=gx + [draw(st.sampled_from([1, 2]))], gy=gy + [draw(st.sampled_from([1, 2]))], ox=ox, oy=oy,
                              occ=[[1] * (nc + 1) for _ in range(nr + 1)], k=1, perm=None)
        else:
            c["other"] = dict(gx=[draw(st.sampled_from([1, 3]))] * 2, gy=[2], ox=draw(st.sampled_from([0, 5])), oy=0, occ=[[1, 2]], k=1, perm=None)
    return c


@st.composite
def solve_s(draw):
    c = draw(grid_s(3, (1, 2, 2, 3), 6))
    c["bound"] = draw(st.sampled_from(["below", "min", "mid", "mid", "max", "max", "above"]))
    if draw(st.booleans()):
        if draw(st.booleans()):  # same grid, another module (other occupancies)
            prev = dict(c)
            prev["occ"] = [[draw(_i(0, 4)) for _ in row] for row in c["occ"]]
            prev["perm"] = None
        else:
            prev = draw(grid_s(3, (1, 2), 6))
        prev["b"] = draw(_i(-5, 20))
        prev.pop("bound", None)
        c["prev"] = prev
    c["fill"] = draw(_i(0, 99)) == 0
    return c


def all_small(tier, shard, nshards):
    """every grid shape up to 3x3 (4x4 for k <= 2, thorough) on a fixed set of coordinate systems"""
    systems = [dict(ox=0, oy=0, g=2), dict(ox=4, oy=0, g=2), dict(ox=0, oy=3, g=1), dict(ox=1, oy=2, g=3), dict(ox=0, oy=0, g=5)]
    maxd = 3 if tier == "quick" else 4
    i = 0
    for s in systems:
        for nc in range(1, maxd + 1):
            for nr in range(1, maxd + 1):
                for k in (1, 2, 3):
                    if k == 3 and nc * nr > (9 if tier == "quick" else 12):
                        continue
                    i += 1
                    if i % nshards != shard:
                        continue
                    yield dict(gx=[s["g"]] * nc, gy=[s["g"]] * nr, ox=s["ox"], oy=s["oy"], occ=[[1] * nc for _ in range(nr)], k=k, perm=None)


def run_fromalloc(c):
    """get_alloc + select_box: the grid handed to the search is the allocation's cells with the selected module's ratios."""
    from gen import alloc as A
    from gen import lattice as L
    from tools.rect import rect_io
    from vfw import exact as X
    if c.get("rename"):
        # module names that contain each other (M1 / M10 / M): the selected module is the one with exactly that name
        c = dict(c, cells=[dict(cell, a={c["rename"].get(m, m): v for m, v in cell["a"].items()}) for cell in c["cells"]])
    src = A.tree(c) if c["form"] == "tree" else A.text(c)
    try:
        ifile = rect_io.get_alloc(src)
    except Exception as e:
        raise Violation("get_alloc raised %s: %s on %s" % (type(e).__name__, e, A.text(c)), "get_alloc-raised")
    mods = sorted({m for cell in c["cells"] for m in cell["a"]}) + ["NOT_THERE"]
    exact = [L.to_fr(cell["r"], c["unit"]) for cell in c["cells"]]
    x0, y0 = min(e[0] for e in exact), min(e[1] for e in exact)
    x1, y1 = max(e[2] for e in exact), max(e[3] for e in exact)
    scale = max(x1 - x0, y1 - y0)
    if abs(Fr(ifile["Width"]) - (x1 - x0)) > scale / 10 ** 9 or abs(Fr(ifile["Height"]) - (y1 - y0)) > scale / 10 ** 9:
        raise Violation("get_alloc reports %r x %r for an allocation spanning %s x %s" % (ifile["Width"], ifile["Height"], x1 - x0, y1 - y0),
                        "get_alloc-size")
    cls = [c["form"]]
    for m in mods:
        try:
            ip, name = rect_io.select_box(m, ifile)
        except Exception as e:
            raise Violation("select_box(%r) raised %s: %s" % (m, type(e).__name__, e), "select_box-raised")
        if name != m or len(ip) != len(c["cells"]):
            raise Violation("select_box(%r) returned %d blocks for %d cells (name %r)" % (m, len(ip), len(c["cells"]), name), "select_box-count")
        for cell, e, b in zip(c["cells"], exact, ip):
            want = float(cell["a"].get(m, 0))
            if any(abs(Fr(b[k]) - e[k]) > scale / 10 ** 9 for k in range(4)) or b[4] != want:
                raise Violation("select_box(%r): block %r for cell %s with ratios %s (expected occupancy %r)" % (
                    m, b, tuple(float(v) for v in e), cell["a"], want), "select_box-block")
        if m != "NOT_THERE" and sum(1 for cell in c["cells"] if m in cell["a"]) >= 2:
            cls.append("module-in-several-cells")
    if any(not cell["a"] for cell in c["cells"]):
        cls.append("empty-cell")
    if any(a != b and a in b for a in mods for b in mods):
        cls.append("a-name-contained-in-another")
    return dict(nt=len(c["cells"]) >= 3 and len(mods) >= 3, cls=cls)


@st.composite
def fromalloc_s(draw):
    from gen import alloc as A
    c = draw(A.alloc_case(sliver=False))
    c["form"] = draw(st.sampled_from(["tree", "text"]))
    if draw(st.booleans()):
        c["rename"] = draw(st.sampled_from([{"M0": "M1", "M1": "M10", "M2": "M", "M3": "M1_0"}, {"M0": "A", "M1": "AB", "M2": "BA", "M3": "B"},
                                            {"M0": "M10", "M1": "M1", "M2": "M100", "M3": "M"}]))
    return c


def subchecks():
    return [
        Sub("fromalloc", run_fromalloc, strategy=fromalloc_s(), n_quick=2000, n_thorough=40000,
            required=("tree", "text", "module-in-several-cells", "empty-cell", "a-name-contained-in-another"),
            desc="rect_io.get_alloc + select_box: the blocks handed to the search are the allocation's cells, in order, with the selected module's ratio (0 where absent)"),
        Sub("models", run_models, strategy=grid_s(), n_quick=4000, n_thorough=40000,
            required=("origin!=0", "fractional-extent", "non-uniform", "blocks-permuted", "k=1", "k=2", "k=3", "k=4", "coordinates-with-7+-significant-digits", "another-carrier-prepared-in-between")),
        Sub("shapes", run_models, enum=all_small, exhaustive=True,
            desc="every grid shape up to 3x3 (quick) / 4x4 (thorough) for k = 1..3 on five coordinate systems (origins 0 / non-0, steps 0.5-2.5)"),
        Sub("solve", run_solve, strategy=solve_s(), n_quick=3000, n_thorough=40000,
            required=("sat", "unsat", "bound-mid", "bound-max", "bound-above", "carrier-reused")),
    ]
