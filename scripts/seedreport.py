#!/venv/bin/python
"""Builds seeded/<id>/meta.json (agent's description + what was run to confirm it) and seeded/RESULTS.md"""
import glob, json, os
V = os.path.dirname(os.path.dirname(os.path.abspath(__file__)))
rows = []
for d in sorted(glob.glob(os.path.join(V, "seeded", "C*"))):
    pid = os.path.basename(d).split("-")[0]
    agent = {}
    if os.path.exists(os.path.join(d, "meta_agent.json")):
        try:
            agent = json.load(open(os.path.join(d, "meta_agent.json")))
        except Exception:
            agent = {}
    conf = {}
    for t in ("quick", "thorough"):
        p = os.path.join(d, "confirm_%s.json" % t)
        if os.path.exists(p):
            conf[t] = json.load(open(p))
    extra = json.load(open(os.path.join(d, "notes.json"))) if os.path.exists(os.path.join(d, "notes.json")) else {}
    meta = dict(property=pid, summary=agent.get("summary", ""), needs=agent.get("needs", ""), files=agent.get("files", []),
                origin=extra.get("origin", "independent sub-agent given only the property text and a private worktree"),
                confirmed_by="scripts/seedcheck.sh %s: pytest in the worktree with the change; demo.py with the change (must exit 1) and "
                             "after `git apply -R patch.diff` (must exit 0); then `git -C /repo apply patch.diff`, `./check %s --tier <tier>`, "
                             "`git -C /repo checkout -- .`" % (os.path.basename(d), pid),
                confirmation=conf, notes=extra.get("notes", ""))
    json.dump(meta, open(os.path.join(d, "meta.json"), "w"), indent=1)
    q = conf.get("quick", {})
    verdict = {1: "caught", 0: "MISSED", 2: "harness error"}.get(q.get("check_exit"), "?")
    rows.append("| %s | %s | %s | %s | %s / %s | %s (%ss) |" % (os.path.basename(d), meta["summary"].replace("|", "/")[:160], meta["needs"].replace("|", "/")[:160],
                q.get("tests", "?").split(",")[0], q.get("demo_with_change_exit"), q.get("demo_without_change_exit"), verdict, q.get("check_seconds")))
with open(os.path.join(V, "seeded", "RESULTS.md"), "w") as f:
    f.write("# Seeded changes\n\nOne directory per change: `patch.diff`, `demo.py`, `meta.json` (what it breaks, what it needs, what was run), "
            "`confirm_<tier>.json`.\n\n| change | what was changed | needs | tests with change | demo exit with / without | quick check |\n|---|---|---|---|---|---|\n")
    f.write("\n".join(rows) + "\n")
print("\n".join(rows))
