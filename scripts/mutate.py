#!/venv/bin/python
"""Sensitivity runs: apply each listed mutation to /repo (textual replace), run the property's quick
check, revert with git.  usage: scripts/mutate.py C18 [name-substring]   (never leaves /repo modified)"""
import functools, json, os, subprocess, sys, time
print = functools.partial(print, flush=True)
VERIF = os.path.dirname(os.path.dirname(os.path.abspath(__file__)))
REPO = "/repo"

def sh(*a, **k):
    return subprocess.run(a, capture_output=True, text=True, **k)

def main():
    prop = sys.argv[1].upper()
    flt = sys.argv[2] if len(sys.argv) > 2 else ""
    tier = os.environ.get("MUT_TIER", "quick")
    muts = json.load(open(os.path.join(VERIF, "mutations", prop + ".json")))
    assert sh("git", "-C", REPO, "status", "--porcelain", "--untracked-files=no").stdout.strip() == "", "repo dirty"
    res = []
    for m in muts:
        if flt and flt not in m["name"]:
            continue
        path = os.path.join(REPO, m["file"])
        src = open(path).read()
        cnt = src.count(m["old"])
        if cnt != m.get("count", 1):
            print("SKIP %-40s pattern occurs %d times" % (m["name"], cnt)); res.append((m["name"], "skip")); continue
        try:
            new = src.replace(m["old"], m["new"])
            for extra in m.get("also", []):
                assert new.count(extra["old"]) == 1, extra["old"]
                new = new.replace(extra["old"], extra["new"])
            open(path, "w").write(new)
            t = time.time()
            env = dict(os.environ, VERIF_CASE_TIMEOUT=os.environ.get("VERIF_CASE_TIMEOUT", "15"), VERIF_EVIDENCE_DIR="/tmp/vfw-evidence-scratch")
            r = sh(os.path.join(VERIF, "check"), prop, "--tier", tier, cwd=VERIF, env=env)
            verdict = {0: "MISSED", 1: "caught", 2: "harness-error"}.get(r.returncode, str(r.returncode))
            first = next((l for l in r.stdout.splitlines() if l.startswith("  ")), "").strip()[:150]
            print("%-13s %-40s %5.1fs  %s" % (verdict, m["name"], time.time() - t, first))
            if r.returncode == 2:
                print(r.stderr[-1500:])
            res.append((m["name"], verdict))
        finally:
            sh("git", "-C", REPO, "checkout", "--", m["file"])
    subprocess.run(["rm", "-rf", os.path.join(VERIF, "found", prop)])
    assert sh("git", "-C", REPO, "status", "--porcelain", "--untracked-files=no").stdout.strip() == ""
    missed = [n for n, v in res if v != "caught"]
    print("%s: %d/%d caught%s" % (prop, len(res) - len(missed), len(res), ("; not caught: " + ", ".join(missed)) if missed else ""))

main()
