#!/venv/bin/python
"""scripts/seedprompt.py <round> <base-dir>: prepares <base-dir>/Cnn/{wt,out,prompt.txt} for a seeding round.
The prompt holds only the property text, the deliverable format and one-sentence summaries of the earlier seeded changes
for the same property (so that a new round looks for a different mechanism) - nothing else from /verif."""
import glob, json, os, subprocess, sys

VERIF = os.path.dirname(os.path.dirname(os.path.abspath(__file__)))
rnd, base = int(sys.argv[1]), sys.argv[2]
only = [a.upper() for a in sys.argv[3:]]

FLAVOUR = {
    12: ("Produce a change that is DIFFERENT from all of those. This time work from the CALLERS: look at how the tools and the library itself "
         "actually use the anchored functions (the sequence of calls in the main() / driver functions of tools/*, the order in which a real run "
         "builds, modifies, queries, writes and re-reads its objects, which optional arguments and which object kinds it passes). Make a change "
         "that is invisible when the anchored function is called once, in isolation, on a freshly built object with default arguments - but "
         "breaks the property in a sequence that a real run of a tool performs (for example: the object was already queried or written once, "
         "came out of another stage, was deep-copied, had squares / rectangles / centres created or reassigned, was built from a file written "
         "by an earlier stage, is used with the non-default argument the tool passes, or is one of several objects alive at the same time). "
         "Say in meta.json (extra key \"pipeline\") which real call sequence you mimic and where it is in the repository. The change must be "
         "plausible as an honest regression, must keep the 46 tests green, and must not rely on the caller rewriting the library's internal data "
         "structures by hand or on absurd numeric scales."),
    11: ("Produce a change that is DIFFERENT from all of those. This time work from the STATEMENT: read it and its quantifier clause by clause "
         "(every 'and', every listed case, every 'including ...', every 'never' / 'always' / 'exactly'). Pick the ONE clause, or the one corner of "
         "the quantified domain, that you judge least likely to be exercised by a harness that already catches everything listed above - a clause "
         "that reads like an afterthought, a case named only in the quantifier, a secondary output, a 'never alters its input', an 'any order', "
         "a 'both constructions', an 'every size', a 'with and without option X' - and break only that, in the function that implements it. Name "
         "the clause in meta.json as an extra key \"clause\". The change must be plausible as an honest regression (a refactoring, an optimisation, "
         "a 'fix' for something else), must keep the 46 tests green, and must leave the rest of the statement intact. Avoid changes whose only "
         "effect is at absurd numeric scales (1e-10 or 1e+10), and avoid changes that only show when the caller rewrites the library's internal "
         "data structures by hand."),
    10: ("Produce a change that is DIFFERENT from all of those - a different function and a different trigger. Choose ONE of these styles, "
         "whichever gives the most plausible honest regression for this property: (a) a shared helper outside the anchored functions (utils, "
         "Point / Shape / BoundingBox / AspectRatio, netlist_types, keyword tables, small helpers of the tools); (b) an error path: the wrong thing "
         "happens after a rejected or failed operation on the same object or in the same process; (c) another access path to the same result "
         "(another getter, a cached list or property, __eq__ / __hash__ / __str__ / duplicate / copy, a keyword or default argument, a file "
         "instead of a string); (d) a size or multiplicity threshold (more elements than small examples have, a repeated element, an empty "
         "collection); (e) an exact tie or boundary at ordinary values; (f) an object with a history (modified in place, used twice, shared "
         "between two owners, passed by the caller and changed by the callee). Avoid changes whose only effect is at absurd numeric scales "
         "(1e-10 or 1e+10)."),
    9: ("Produce a change that is DIFFERENT from all of those. This time put the slip into the core ALGORITHM of the anchored mechanism itself - not "
        "into I/O, caching, aliasing, process state, tolerances or input forms (those have been done many times): a wrong index or loop bound, a "
        "missed case in a case analysis, a wrong tie-break, a condition that is almost always equivalent to the right one, an early exit that is "
        "almost always safe, an optimisation whose invariant fails for some structure. It should show only for STRUCTURED inputs that a random "
        "small example is unlikely to contain: particular shapes or nestings, symmetric configurations, runs of equal items, specific "
        "multiplicities, degenerate-but-valid geometry (corner contacts, shared boundaries, collinear edges, touching-but-not-overlapping, "
        "a region enclosed by others, an L / U / T / plus / staircase arrangement), or a specific interplay of three or more elements. The change "
        "must be plausible as an honest regression and must keep the 46 tests green. Avoid changes whose only effect is at absurd numeric scales "
        "(1e-10 or 1e+10)."),
    8: ("Produce a change that is DIFFERENT from all of those - a different function and a different trigger. Assume the harness that will judge "
        "your change draws random small designs and random short operation sequences and compares the code with an independent oracle: think of "
        "what such a harness systematically misses. For example: a specific 'magic' value or length (exactly 2 elements, exactly 7, a power of two, "
        "a multiple of the chunk size); a rare but valid combination of attributes or flags; a condition that needs three or more objects to line "
        "up (three rectangles in a row, a module in three nets, three equal values); an operation repeated many times (idempotence that drifts, a "
        "counter that overflows a small bound, a list that grows); an argument passed by keyword vs position, or as a float where an int is "
        "usual; a result that is right but whose secondary outputs (returned flags, counts, ordering of the returned list, cached properties read "
        "afterwards) are wrong; a public function of the anchored module that is rarely called. The change must be plausible as an honest "
        "regression (a refactoring, an optimisation, a 'fix' for something else) and must keep the 46 tests green. Avoid changes whose only effect "
        "is at absurd numeric scales (1e-10 or 1e+10)."),
    7: ("Produce a change that is DIFFERENT from all of those - a different function and a different trigger. Any style is welcome; think of what "
        "a harness built from the earlier attempts would still not exercise, for example: larger or more irregular instances than small examples; "
        "a second or third call on the same object with other arguments; valid but unusual combinations of attributes (a module that is at once "
        "terminal and fixed, a net that names the same module twice, a region tag that looks like a keyword, an area given per region together with "
        "rectangles in other regions); quantities that are exactly zero, exactly equal or exactly at a limit at ordinary scales; behaviour that "
        "depends on the order in which things are listed; something left behind in the object or the process by an earlier successful or failed "
        "call; a caller-supplied object that is modified; text vs parsed-tree vs file input. The change must be plausible as an honest regression "
        "(a refactoring, an optimisation, a 'fix' for something else) and must keep the 46 tests green. Avoid changes whose only effect is at absurd "
        "numeric scales (1e-10 or 1e+10)."),
    6: ("Produce a change of a DIFFERENT kind from all of those, in one of these styles: (i) a different ACCESS PATH to the same result: a public "
        "method / property / operator / optional argument of the anchored classes that callers may legitimately use instead of the usual one "
        "(another getter, a cached list, __eq__ / __hash__ / __str__ / duplicate(), a keyword argument, a default value, returning a string vs "
        "writing a file) and that now gives a different answer than the usual path; (ii) a SIZE threshold: the change only matters once there "
        "are more elements than small examples have (more than ~8 rectangles / cells / modules / literals / nets, a deeper recursion, a longer "
        "chain, a larger grid), e.g. an off-by-one in chunking, a recursion cut-off, a quadratic shortcut with a wrong bound; (iii) an exact TIE "
        "or boundary at ordinary values: two quantities exactly equal (a ratio exactly at the threshold, an aspect ratio exactly at the limit, "
        "equal areas, equal coordinates, a weight of exactly 1 or 1.0, zero overlap), where < vs <= or the choice among equals matters; (iv) "
        "FILE-based input / output (a path instead of a string: relative path, a name with spaces or a dot, an existing file being overwritten, "
        "a file without trailing newline, an empty file). Avoid changes whose only effect is at absurd numeric scales (1e-10 or 1e+10)."),
    5: ("Produce a change of a DIFFERENT kind from all of those, in one of these styles: (i) a change in a shared helper OUTSIDE the anchored "
        "functions that the anchored mechanism relies on (frame/utils, the Point / Shape / BoundingBox / AspectRatio classes, "
        "frame/netlist/netlist_types.py, keyword tables, tools' small helper functions); (ii) a change that only shows for particular numeric "
        "TYPES or literal FORMS of valid input (int vs float, scientific notation, negative zero, a YAML flow vs block form, a file path vs a "
        "string vs an already parsed tree, a tuple vs a list); (iii) an ordering dependence (dict / set iteration order, sort stability, ties "
        "between equal keys, the order in which modules / cells / nets are listed); (iv) an error-path change: the wrong thing happens AFTER a "
        "rejected or failed operation (state left behind, a half-built object reused, a different exception escaping); (v) an interaction "
        "between two features that are each fine alone (e.g. a flag combined with a rarely used option). Avoid changes whose only effect is at "
        "absurd numeric scales (1e-10 or 1e+10)."),
    4: ("Produce a change of a DIFFERENT kind from all of those: pick a different function (another anchored mechanism, or a helper / caller / "
        "constructor / property getter / writer it relies on), and prefer one of these styles: (i) a plausible 'clean-up' or 'optimisation' "
        "refactoring (caching a derived value, reusing an object instead of copying it, hoisting a computation out of a loop, replacing a "
        "loop by a comprehension / builtin, early exit) that is subtly not equivalent; (ii) a tolerance / rounding / comparison-direction "
        "slip that matters only when two quantities coincide or nearly coincide at ORDINARY scales (units like 0.1, 1, 2.5, 10); (iii) a lost "
        "special case for an unusual-but-valid input form (another accepted syntax, another argument type, another order, an empty or "
        "singleton collection, a repeated element); (iv) an aliasing / in-place-mutation bug that only shows when an object is used again "
        "later. Avoid changes whose only effect is at absurd numeric scales (1e-10 or 1e+10)."),
}


def prop_text(p):
    a = p["anchors"]
    mech = "; ".join("%s (%s)" % (m["name"], m.get("where", "")) for m in a.get("mechanism", []))
    state = "; ".join("%s: %s (%s)" % (m["name"], m.get("meaning", ""), m.get("where", "")) for m in a.get("state", []))
    s = "Property %s: %s\n\nStatement: %s\n\nQuantified over: %s\n\nWhy the existing tests cannot settle it: %s\n\n" % (
        p["id"], p["title"], p["statement"], p["quantifier"]["text"], p["why_tests_cant"])
    s += "Code anchors (files): %s\n" % ", ".join(a["files"])
    if state:
        s += "State: %s\n" % state
    s += "Mechanisms: %s\nObserve at: %s\n" % (mech, "; ".join(a.get("observe_at", [])))
    return s


for line in open(os.path.join(VERIF, "properties.jsonl")):
    p = json.loads(line)
    pid = p["id"]
    if only and pid not in only:
        continue
    d = os.path.join(base, pid)
    os.makedirs(os.path.join(d, "out"), exist_ok=True)
    if not os.path.isdir(os.path.join(d, "wt")):
        subprocess.check_call(["git", "-C", "/repo", "worktree", "add", "--detach", "-q", os.path.join(d, "wt"), "HEAD"])
    earlier = []
    for m in sorted(glob.glob(os.path.join(VERIF, "seeded", pid + "*", "meta.json"))):
        j = json.load(open(m))
        earlier.append('"%s" (files: %s)' % (j["summary"].strip(), ", ".join(j.get("files", []))))
    note = ""
    if earlier:
        note = ("NOTE: %d earlier seeding attempts for this same property made these changes, and all are already covered:\n" % len(earlier)
                + "\n".join("  %d. %s" % (i + 1, e) for i, e in enumerate(earlier)) + "\n" + FLAVOUR.get(rnd, FLAVOUR[4]) + "\n")
    D = d
    prompt = f"""You are helping to evaluate a verification harness by mutation seeding. You work ONLY inside the directory {D} :
  - {D}/wt   is a private git worktree of the Python repository jordicf/FRAME (a chip floorplanning research framework). Edit files only there.
  - {D}/out  is where you put your deliverables.
Do NOT read or touch /verif, /repo, or any other {base}/* directory (that would invalidate the experiment). Do not use the network.

The property below is one that FRAME is supposed to satisfy (the current code in the worktree does satisfy it as far as is known):

------------------------------------------------------------------
{prop_text(p)}
------------------------------------------------------------------

{note}
YOUR TASK: make ONE small, realistic change to the FRAME source code in the worktree (the kind of regression a developer could plausibly introduce: an off-by-one, a wrong comparison, a lost special case, a dropped guard, a stale cache, a mutable default, a sign error, two sites that each look fine alone ...) such that
  (a) the code still imports and the existing test suite still passes:   cd {D}/wt && /venv/bin/python -m pytest -q -p no:cacheprovider tests     (46 tests must pass), and
  (b) the property above is now BROKEN, but only for inputs / situations that need something specific to manifest: an unusual input (particular coordinates, sizes, orders, repeated elements, decimal steps, ...), a multi-step sequence of operations, a particular earlier history in the same process, or two cooperating sites. Do NOT make a change that ordinary use would expose at once (e.g. breaking every call).
Prefer changes inside the files named in the property's anchors. Do not edit anything under tests/.

DELIVERABLES in {D}/out :
  1. patch.diff : output of `git -C {D}/wt diff` (the source change only).
  2. demo.py : a small self-contained Python program that exits 0 when the property holds on its example and exits 1 (printing what went wrong) when it is broken. It must FAIL (exit 1) with your change applied and PASS (exit 0) on the unchanged code. It is run as:  cd {D}/wt && /venv/bin/python {D}/out/demo.py   (IMPORTANT: start demo.py with `import sys, os; sys.path.insert(0, os.getcwd())` so that `import frame` / `import tools` resolve to the worktree and not to the installed copy; print `frame.__file__` once to be sure). Do not import pytest/hypothesis in it; plain Python + numpy are fine. Note: tools.rect.rect.Carrier() needs `tools.rect.rect.GreedyManager` rebound to a stub class first (Windows DLL); GEKKO's local APOPT solver works offline.
  3. meta.json : {{"property": "{pid}", "summary": "<one sentence: what was changed>", "needs": "<what specific input / sequence / history is needed for it to manifest>", "files": ["<changed files>"]}}

Verify yourself before finishing: (1) with the change: tests pass and demo exits 1; (2) revert with `git -C {D}/wt apply -R {D}/out/patch.diff`; demo exits 0; re-apply with `git -C {D}/wt apply {D}/out/patch.diff`. NEVER use `git stash` (the stash is shared between worktrees of other concurrent jobs). Leave the worktree WITH your change applied. Finish with a short report (what you changed, how it manifests, the demo's output with and without the change).
"""
    open(os.path.join(d, "prompt.txt"), "w").write(prompt)
    print(pid, len(prompt))
