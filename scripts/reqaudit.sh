#!/bin/sh
# scripts/reqaudit.sh <seed> ... : runs every quick check at the given seeds (evidence to a scratch dir) and lists, per subcheck,
# the required classes with their counts - a required class that is rare makes a check exit 2 at an unlucky seed.
for s in "$@"; do
  d=/tmp/vfw-reqaudit/$s; mkdir -p $d
  for i in $(seq -w 1 20); do
    VERIF_SEED=$s VERIF_EVIDENCE_DIR=$d VERIF_FOUND_DIR=$d/found ./check C$i --tier quick > $d/C$i.out 2>&1; echo "seed $s C$i exit=$? $(tail -1 $d/C$i.out | cut -c1-120)"
  done
done
