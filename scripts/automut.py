#!/venv/bin/python
"""Automatic mutation sweep (sensitivity measurement, not a check).

For a property, the functions named by its anchors (the "where" line ranges of properties.jsonl, resolved to enclosing
functions at the pinned base commit and then looked up by qualified name in the current tree) are mutated one AST node
at a time (comparison / arithmetic / boolean operator swaps, constant changes, dropped `not` / unary minus / abs,
min<->max, deleted call statements and assertions, augmented-assignment flips).  A seeded sample of the mutants is applied
to a scratch copy of /repo (never to /repo), the 46 tests are run there, and - only when they still pass - the property's
quick check is run against the copy (FRAME_REPO=<copy>).  Verdicts: tests-fail, caught, SURVIVED, harness-error.

usage: scripts/automut.py Cnn [Cnn ...] [--per N] [--seed S] [--workers W] [--nproc P] [--out file.jsonl]
"""
import argparse, ast, functools, json, os, random, re, shutil, subprocess, sys, time
from concurrent.futures import ThreadPoolExecutor

print = functools.partial(print, flush=True)
VERIF = os.path.dirname(os.path.dirname(os.path.abspath(__file__)))
REPO = "/repo"
BASE = open("/root/.vp/repo_root_sha").read().strip() if os.path.exists("/root/.vp/repo_root_sha") else None
SCRATCH = "/tmp/automut"


def sh(*a, **k):
    return subprocess.run(a, capture_output=True, text=True, **k)


# ---------------------------------------------------------------- anchors -> functions
def funcs_of(tree):
    out = []

    def walk(node, prefix):
        for ch in ast.iter_child_nodes(node):
            if isinstance(ch, (ast.FunctionDef, ast.AsyncFunctionDef)):
                q = prefix + ch.name
                out.append((q, ch.lineno, ch.end_lineno, ch))
                walk(ch, q + ".")
            elif isinstance(ch, ast.ClassDef):
                walk(ch, prefix + ch.name + ".")
            else:
                walk(ch, prefix)
    walk(tree, "")
    return out


def anchored_functions(prop):
    """{file: set(qualified function names)} from the 'where' fields of the property's anchors."""
    res = {}
    items = prop["anchors"].get("mechanism", []) + prop["anchors"].get("state", [])
    for it in items:
        for part in it.get("where", "").split(";"):
            part = part.strip()
            if ":" not in part:
                continue
            f, ranges = part.split(":", 1)
            f = f.strip()
            base_src = sh("git", "-C", REPO, "show", "%s:%s" % (BASE, f)).stdout
            if not base_src:
                continue
            fs = funcs_of(ast.parse(base_src))
            for rg in ranges.split(","):
                m = re.match(r"\s*(\d+)(?:-(\d+))?", rg)
                if not m:
                    continue
                lo = int(m.group(1)); hi = int(m.group(2) or lo)
                for q, a, b, _ in fs:
                    # innermost functions overlapping the range
                    if a <= hi and b >= lo:
                        res.setdefault(f, set()).add(q)
    # keep only innermost (drop a function if a nested one of it is also selected -> keep both is harmless)
    return res


# ---------------------------------------------------------------- mutants
CMP = {ast.Lt: ("<", ["<="]), ast.LtE: ("<=", ["<"]), ast.Gt: (">", [">="]), ast.GtE: (">=", [">"]),
       ast.Eq: ("==", ["!="]), ast.NotEq: ("!=", ["=="]), ast.Is: ("is", ["is not"]), ast.IsNot: ("is not", ["is"]),
       ast.In: ("in", ["not in"]), ast.NotIn: ("not in", ["in"])}
BIN = {ast.Add: ("+", ["-"]), ast.Sub: ("-", ["+"]), ast.Mult: ("*", ["/"]), ast.Div: ("/", ["*"]),
       ast.FloorDiv: ("//", ["/"]), ast.Mod: ("%", ["//"]), ast.Pow: ("**", ["*"])}
AUG = {ast.Add: ("+=", "-="), ast.Sub: ("-=", "+="), ast.Mult: ("*=", "/="), ast.Div: ("/=", "*=")}


class Src:
    def __init__(self, text):
        self.text = text
        self.lines = text.split("\n")
        self.off = [0]
        for ln in self.lines:
            # ast col offsets are utf-8 byte offsets; the repository is ascii in code positions (checked below)
            self.off.append(self.off[-1] + len(ln) + 1)

    def pos(self, lineno, col):
        return self.off[lineno - 1] + col

    def span(self, node):
        return self.pos(node.lineno, node.col_offset), self.pos(node.end_lineno, node.end_col_offset)


def find_token(text, lo, hi, tok):
    """position of operator token tok in text[lo:hi] outside parentheses/comments; None if ambiguous"""
    seg = text[lo:hi]
    if "#" in seg or '"' in seg or "'" in seg:
        return None
    pat = re.escape(tok)
    if tok.isalpha() or " " in tok:
        pat = r"(?<![\w])" + pat.replace(r"\ ", r"\s+") + r"(?![\w])"
    ms = list(re.finditer(pat, seg))
    # for single-character operators make sure we do not match part of a longer one
    ms = [m for m in ms if not (tok in ("<", ">", "=", "*", "/", "+", "-") and (
        seg[m.end():m.end() + 1] in ("=", tok) or seg[max(0, m.start() - 1):m.start()] in (tok, "<", ">", "=", "!") and tok in ("=",)))]
    if tok == "*":
        ms = [m for m in ms if seg[max(0, m.start() - 1):m.start()] != "*"]
    if tok == "/":
        ms = [m for m in ms if seg[max(0, m.start() - 1):m.start()] != "/"]
    if len(ms) != 1:
        return None
    return lo + ms[0].start(), lo + ms[0].end()


def mutants_of_function(src, fn, fname, qual):
    out = []

    def add(kind, lo, hi, new, node):
        old = src.text[lo:hi]
        if old == new:
            return
        out.append(dict(file=fname, func=qual, kind=kind, line=node.lineno, lo=lo, hi=hi, old=old, new=new))

    doc = ast.get_docstring(fn, clean=False)
    for node in ast.walk(fn):
        if isinstance(node, ast.Compare):
            left = node.left
            for op, right in zip(node.ops, node.comparators):
                tok, alts = CMP.get(type(op), (None, []))
                if tok:
                    p = find_token(src.text, src.span(left)[1], src.span(right)[0], tok)
                    if p:
                        for alt in alts:
                            add("cmp", p[0], p[1], alt, node)
                left = right
        elif isinstance(node, ast.BinOp):
            tok, alts = BIN.get(type(node.op), (None, []))
            if tok and not (isinstance(node.op, ast.Mod) and isinstance(node.left, ast.Constant) and isinstance(node.left.value, str)):
                p = find_token(src.text, src.span(node.left)[1], src.span(node.right)[0], tok)
                if p:
                    for alt in alts:
                        add("arith", p[0], p[1], alt, node)
        elif isinstance(node, ast.BoolOp):
            tok = "and" if isinstance(node.op, ast.And) else "or"
            for a, b in zip(node.values, node.values[1:]):
                p = find_token(src.text, src.span(a)[1], src.span(b)[0], tok)
                if p:
                    add("bool", p[0], p[1], "or" if tok == "and" else "and", node)
        elif isinstance(node, ast.UnaryOp):
            lo, hi = src.span(node)
            olo, ohi = src.span(node.operand)
            if isinstance(node.op, ast.Not):
                add("drop-not", lo, hi, "(" + src.text[olo:ohi] + ")", node)
            elif isinstance(node.op, ast.USub) and not isinstance(node.operand, ast.Constant):
                add("drop-neg", lo, hi, "(" + src.text[olo:ohi] + ")", node)
        elif isinstance(node, ast.Constant):
            lo, hi = src.span(node)
            v = node.value
            if isinstance(v, bool):
                add("const", lo, hi, "False" if v else "True", node)
            elif isinstance(v, int):
                for nv in ({0: [1], 1: [0, 2]}.get(v, [v + 1, v - 1])):
                    add("const", lo, hi, repr(nv), node)
            elif isinstance(v, float):
                for nv in (v * 2, v / 2) if v != 0 else (1.0,):
                    add("const", lo, hi, repr(nv), node)
        elif isinstance(node, ast.Call) and isinstance(node.func, ast.Name) and node.func.id in ("min", "max", "abs"):
            lo, hi = src.span(node.func)
            if node.func.id == "abs":
                add("drop-abs", lo, hi, "", node)
            else:
                add("minmax", lo, hi, "max" if node.func.id == "min" else "min", node)
        elif isinstance(node, ast.AugAssign) and type(node.op) in AUG:
            tok, alt = AUG[type(node.op)]
            p = find_token(src.text, src.span(node.target)[1], src.span(node.value)[0], tok[0])
            lo = src.span(node.target)[1]
            seg = src.text[lo:src.span(node.value)[0]]
            i = seg.find(tok)
            if i >= 0 and seg.count(tok) == 1:
                add("augassign", lo + i, lo + i + len(tok), alt, node)
        elif isinstance(node, ast.Assert):
            lo, hi = src.span(node)
            add("drop-assert", lo, hi, "pass", node)
        elif isinstance(node, ast.Expr) and isinstance(node.value, ast.Call):
            lo, hi = src.span(node)
            if "\n" not in src.text[lo:hi] or True:
                add("drop-call", lo, hi, "pass", node)
        elif isinstance(node, ast.If) and not node.orelse:
            lo, hi = src.span(node.test)
            add("if-false", lo, hi, "False", node)
        elif isinstance(node, (ast.Break, ast.Continue)):
            lo, hi = src.span(node)
            add("drop-jump", lo, hi, "pass", node)
    return out


def all_mutants(prop):
    af = anchored_functions(prop)
    res = []
    for f, quals in sorted(af.items()):
        text = sh("git", "-C", REPO, "show", "HEAD:%s" % f).stdout
        if any(ord(c) > 127 for c in text):
            # positions are computed in characters; ast reports utf-8 byte columns -> only ascii lines are mutated
            pass
        src = Src(text)
        tree = ast.parse(text)
        fs = {q: n for q, _, _, n in funcs_of(tree)}
        seen = set()
        for q in sorted(quals):
            fn = fs.get(q)
            if fn is None:
                continue
            for m in mutants_of_function(src, fn, f, q):
                ln = src.lines[m["line"] - 1]
                if any(ord(c) > 127 for c in ln):
                    continue
                key = (m["lo"], m["hi"], m["new"])
                if key in seen:
                    continue
                seen.add(key)
                res.append(m)
    return res


def sample(muts, per, seed):
    rnd = random.Random(seed)
    by = {}
    for m in muts:
        by.setdefault(m["kind"], []).append(m)
    for v in by.values():
        rnd.shuffle(v)
    out = []
    kinds = sorted(by)
    while len(out) < per and any(by.values()):
        for k in kinds:
            if by[k] and len(out) < per:
                out.append(by[k].pop())
    return out


# ---------------------------------------------------------------- execution
def make_copy(k):
    d = os.path.join(SCRATCH, "w%s" % k if k != "base" else "base")
    shutil.rmtree(d, ignore_errors=True)
    os.makedirs(d)
    p1 = subprocess.Popen(["git", "-C", REPO, "archive", "HEAD"], stdout=subprocess.PIPE)
    subprocess.check_call(["tar", "-x", "-C", d], stdin=p1.stdout)
    p1.wait()
    return d


def run_mutant(copy, pid, m, nproc, tier):
    path = os.path.join(copy, m["file"])
    orig = open(os.path.join(SCRATCH, "base", m["file"])).read()  # pristine snapshot (HEAD), /repo itself may be patched meanwhile
    assert orig[m["lo"]:m["hi"]] == m["old"]
    new = orig[:m["lo"]] + m["new"] + orig[m["hi"]:]
    rec = dict(m, prop=pid)
    try:
        ast.parse(new)
    except SyntaxError:
        rec["verdict"] = "syntax"
        return rec
    open(path, "w").write(new)
    try:
        env = dict(os.environ, PYTHONDONTWRITEBYTECODE="1", PYTHONHASHSEED="0")
        t = time.time()
        try:
            r = sh("/venv/bin/python", "-m", "pytest", "-q", "-x", "-p", "no:cacheprovider", "--timeout=120", "tests", cwd=copy, env=env, timeout=400)
            ok = r.returncode == 0
        except subprocess.TimeoutExpired:
            ok = False
        rec["tests_s"] = round(time.time() - t, 1)
        if not ok:
            rec["verdict"] = "tests-fail"
            return rec
        env.update(FRAME_REPO=copy, VERIF_NPROC=str(nproc), VERIF_CASE_TIMEOUT="15",
                   VERIF_EVIDENCE_DIR=os.path.join(copy, "_evidence"), VERIF_FOUND_DIR=os.path.join(copy, "_found"))
        t = time.time()
        try:
            r = sh(os.path.join(VERIF, "check"), pid, "--tier", tier, cwd=VERIF, env=env, timeout=1500)
            rc = r.returncode
            first = next((l for l in r.stdout.splitlines() if l.startswith("  ")), "").strip()[:200]
            if rc == 2:
                first = r.stderr[-400:]
        except subprocess.TimeoutExpired:
            rc, first = 3, "check timed out"
        rec["check_s"] = round(time.time() - t, 1)
        rec["verdict"] = {0: "SURVIVED", 1: "caught", 2: "harness-error", 3: "timeout"}.get(rc, str(rc))
        rec["first"] = first
        return rec
    finally:
        open(path, "w").write(orig)


def main():
    ap = argparse.ArgumentParser()
    ap.add_argument("props", nargs="+")
    ap.add_argument("--per", type=int, default=25)
    ap.add_argument("--seed", type=int, default=1)
    ap.add_argument("--workers", type=int, default=4)
    ap.add_argument("--nproc", type=int, default=4)
    ap.add_argument("--tier", default="quick")
    ap.add_argument("--out", default=os.path.join(VERIF, "mutations", "auto_results.jsonl"))
    ap.add_argument("--list", action="store_true")
    a = ap.parse_args()
    props = {}
    for l in open(os.path.join(VERIF, "properties.jsonl")):
        p = json.loads(l); props[p["id"]] = p
    jobs = []
    for pid in a.props:
        pid = pid.upper()
        muts = all_mutants(props[pid])
        smp = sample(muts, a.per, a.seed)
        print("%s: %d mutants in %d anchored functions, %d sampled" % (
            pid, len(muts), len({(m["file"], m["func"]) for m in muts}), len(smp)))
        if a.list:
            for m in smp:
                print("   %s:%d %s %s  %r -> %r" % (m["file"], m["line"], m["func"], m["kind"], m["old"][:40], m["new"][:40]))
        jobs += [(pid, m) for m in smp]
    if a.list:
        return
    make_copy("base")
    copies = [make_copy(k) for k in range(a.workers)]
    done = set()
    if os.path.exists(a.out):
        for l in open(a.out):
            r = json.loads(l)
            done.add((r["prop"], r["file"], r["lo"], r["hi"], r["new"]))
    jobs = [(pid, m) for pid, m in jobs if (pid, m["file"], m["lo"], m["hi"], m["new"]) not in done]
    print("%d jobs to run (%d already in %s)" % (len(jobs), len(done), a.out))
    free = list(copies)
    import threading
    lock = threading.Lock()

    def work(job):
        pid, m = job
        with lock:
            c = free.pop()
        try:
            rec = run_mutant(c, pid, m, a.nproc, a.tier)
        except Exception as e:
            rec = dict(m, prop=pid, verdict="driver-error", first=repr(e))
        finally:
            with lock:
                free.append(c)
        with lock:
            with open(a.out, "a") as f:
                f.write(json.dumps(rec) + "\n")
            print("%-13s %s %s:%d %-11s %r -> %r  %s" % (rec["verdict"], pid, m["file"], m["line"], m["kind"],
                                                      m["old"][:30], m["new"][:30], rec.get("first", "")[:110]))
        return rec

    with ThreadPoolExecutor(a.workers) as ex:
        res = list(ex.map(work, jobs))
    shutil.rmtree(SCRATCH, ignore_errors=True)
    from collections import Counter
    for pid in a.props:
        c = Counter(r["verdict"] for r in res if r["prop"] == pid.upper())
        print(pid.upper(), dict(c))


main()
