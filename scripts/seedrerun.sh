#!/bin/sh
# scripts/seedrerun.sh [tier] <seeded-dir-name> ...   e.g.  scripts/seedrerun.sh quick C20 C20-2 C20-3
# Re-runs the property's check against stored seeded changes (seeded/<name>/patch.diff applied to /repo, restored afterwards).
# Patches were made against the /repo HEAD of their round; one that no longer applies is reported and skipped.
V=/verif; TIER=quick
case "$1" in quick|thorough) TIER=$1; shift;; esac
[ -z "$(git -C /repo status --porcelain --untracked-files=no)" ] || { echo "/repo dirty"; exit 2; }
for D in "$@"; do
  P=$(echo $D | cut -c1-3)
  if ! git -C /repo apply --3way $V/seeded/$D/patch.diff >/dev/null 2>&1 && ! git -C /repo apply $V/seeded/$D/patch.diff 2>/dev/null; then
    echo "$D: patch does not apply to the current /repo"; git -C /repo checkout -q -- . ; git -C /repo reset -q; continue
  fi
  s=$(date +%s)
  (cd $V && VERIF_EVIDENCE_DIR=/tmp/vfw-evidence-scratch VERIF_FOUND_DIR=/tmp/vfw-found-scratch VERIF_CASE_TIMEOUT=30 ./check $P --tier $TIER > /tmp/seedrerun.out 2>&1); CE=$?
  e=$(date +%s)
  git -C /repo reset -q; git -C /repo checkout -q -- .
  echo "$D check($TIER) exit=$CE $((e-s))s: $(grep -E -A1 'VIOLATION|HARNESS' /tmp/seedrerun.out | head -2 | tr '\n' ' ' | cut -c1-220)"
done
rm -rf /tmp/vfw-found-scratch
