#!/venv/bin/python
"""usage: scripts/addfinding.py fixed|open C16 <commit|-> <signature> <replay-file|-> <what...>"""
import json, sys, os
VERIF = os.path.dirname(os.path.dirname(os.path.abspath(__file__)))
p = os.path.join(VERIF, "known_findings.json")
d = json.load(open(p))
status, prop, commit, sig, replay = sys.argv[1:6]
what = " ".join(sys.argv[6:])
e = dict(status=status, property=prop, commit=None if commit == "-" else commit, signature=sig,
         replay=None if replay == "-" else replay, what=what)
e["line"] = ("fixed: property=%s %s %s" % (prop, commit, what)) if status == "fixed" else ("open: property=%s %s" % (prop, what))
d["findings"] = [x for x in d["findings"] if not (x["property"] == prop and x["signature"] == sig and x.get("replay") == e["replay"])] + [e]
json.dump(d, open(p, "w"), indent=1)
open(p, "a").write("\n")
print(e["line"])
