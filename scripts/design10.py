#!/venv/bin/python
"""Regenerates the table and the counts of DESIGN.md section 10 from seeded/*/meta.json (prose between the markers is kept in this file)."""
import glob, json, os
V = os.path.dirname(os.path.dirname(os.path.abspath(__file__)))
p = os.path.join(V, "DESIGN.md")
s = open(p).read()
i = s.index("## 10. Sensitivity: independently seeded changes")
j = s.index("\n---------------------------------------------------------------------------------------------\n\n## 11.")
rows = []; missed = {}; tot = {}; atonce = {}; notclaimed = []
for d in sorted(glob.glob(os.path.join(V, "seeded", "C*"))):
    b = os.path.basename(d); rnd = int(b.split("-")[1]) if "-" in b else 1
    m = json.load(open(os.path.join(d, "meta.json")))
    tot[rnd] = tot.get(rnd, 0) + 1
    note = m.get("notes") or ""
    if note.startswith("Not caught"):
        first = "not a violation of the statement: " + note.replace("|", "/").replace("\n", " ")
        notclaimed.append(b)
    elif note:
        first = "caught after widening: " + note.replace("|", "/").replace("\n", " ")
        missed.setdefault(rnd, []).append(b[:3])
    else:
        first = "caught"
        atonce[rnd] = atonce.get(rnd, 0) + 1
    rows.append("| %s | %s | %s | %s |" % (b, m["summary"].replace("|", "/").replace("\n", " ")[:230], m["needs"].replace("|", "/").replace("\n", " ")[:200], first))
tbl = "| change | what was changed | what it needs to manifest | quick tier |\n|---|---|---|---|\n" + "\n".join(rows)
rounds = sorted(tot)
nt = sum(tot.values()); nm = sum(len(v) for v in missed.values()); na = sum(atonce.values())
new = open(os.path.join(V, "scripts", "design10_prose.md")).read() % dict(
    nt=nt, na=na, nm=nm, nrounds=len(rounds), atonce=" / ".join(str(atonce.get(r, 0)) for r in rounds),
    missed="; ".join("round %d: %s" % (r, ", ".join(missed.get(r, [])) or "none") for r in rounds), notclaimed=", ".join(notclaimed) or "none")
s = s[:i] + new + tbl + "\n" + s[j:]
open(p, "w").write(s)
print(dict(total=nt, at_once=na, after_widening=nm, not_claimed=notclaimed))
