#!/bin/sh
# runs every registered check of the given tier (default quick) on the current tree; prints one line per property
cd "$(dirname "$0")/.." || exit 2
TIER=${1:-quick}
rc=0
for p in $(/venv/bin/python -c "import json; print(' '.join(c['property_id'] for c in json.load(open('MANIFEST.json'))['checks']))"); do
  s=$(date +%s)
  out=$(./check $p --tier $TIER 2>&1); code=$?
  e=$(date +%s)
  echo "$p exit=$code $((e-s))s $(echo "$out" | grep -E 'held on|VIOLATION|KNOWN-FINDING|HARNESS' | head -3 | tr '\n' ' ')"
  [ $code -ne 0 ] && rc=1
done
exit $rc
