#!/venv/bin/python
"""Adds / refreshes, in every per-property section of DESIGN.md, a bullet 'Widened after seeded changes' built from seeded/<id>/notes.json."""
import glob, json, os, re
V = os.path.dirname(os.path.dirname(os.path.abspath(__file__)))
p = os.path.join(V, "DESIGN.md")
s = open(p).read()
for i in range(1, 21):
    pid = "C%02d" % i
    items = []
    for d in sorted(glob.glob(os.path.join(V, "seeded", pid + "*"))):
        f = os.path.join(d, "notes.json")
        if os.path.exists(f):
            n = json.load(open(f))["notes"]
            if n.startswith("Not caught"):
                continue
            n = re.sub(r"^Missed at first \((.*?)\)\.\s*", "", n, flags=re.S)
            n = re.sub(r";?\s*caught\.?\s*$", ".", n.strip())
            items.append("  - %s: %s" % (os.path.basename(d), n))
    start = s.index("### %s " % pid)
    end = s.find("\n### C", start + 5)
    if end < 0:
        end = s.index("\n---", start)
    sec = s[start:end]
    sec = re.sub(r"\n\* \*\*Widened after seeded changes \(section 10\).*?(?=\n\n|\Z)", "", sec, flags=re.S)
    if items:
        sec = sec.rstrip("\n") + "\n* **Widened after seeded changes (section 10).**\n" + "\n".join(items) + "\n"
    s = s[:start] + sec + s[end:]
open(p, "w").write(s)
print("ok")
