#!/venv/bin/python
"""Regenerates MANIFEST.json from the table below (one entry per claimed property)."""
import json, os
VERIF = os.path.dirname(os.path.dirname(os.path.abspath(__file__)))
ALL = ["C%02d" % i for i in range(1, 21)]

CLAIMED = {
 "C10": dict(
    text="Generated small designs (lattice dies with blockages and fixed modules, refined by split or grid; soft, hard, flippable and fixed modules; weighted nets; generated threshold / alpha / iteration limit) run through the real glbfloor() with the local APOPT solver; whenever it returns, the result is judged by a validity predicate (cells disjoint and inside the die, ratios in [0,1], capacity within solver tolerance, centres inside the die, fixed modules untouched and sole owners of their cells, hard modules rigid up to a mirror). A second sub-check feeds extract_solution synthetic solutions with translated and mirrored hard modules and requires the rectangles to land where the solution says (the solver itself almost never chooses a mirrored solution).",
    note="Conditional on returning: about a third of the generated instances return (reported in evidence); solver failures, modules without any cell and empty results are counted, not judged. Trusted: exact geometry; tolerances 1e-4 (capacity), 1e-6 (centres, ownership).",
    technique="property-based testing (Hypothesis) with a validity-predicate oracle over solver outputs, plus synthetic-solution tests of the extraction step", ref="4/C10"),
 "C20": dict(
    text="Generated (history, probe) pairs over seven operation families (netlist loading, die decomposition, allocation refinement, orthogon recognition, SAT encoding, legaliser model construction, Strop decomposition) with histories of 0-6 operations on unrelated designs 1x-1000x the base scale, including rejected designs, module-less / terminal-only netlists and post-hoc mutation of results; every case runs the probe in a freshly forked interpreter and again after the history in another fresh fork, and compares canonical digests (differential / metamorphic oracle); the parent asserts before each fork that no FRAME state exists.",
    note="Digests: floats to 12 significant digits, SAT results as projected model sets, exception types for rejections. Lattice designs (unit >= 0.1) so that verdicts are clear of any tolerance a 1000x epsilon change could move. State left by operation families not in the list is not reached.",
    technique="property-based testing (Hypothesis) with a fork-per-case differential oracle (fresh interpreter vs after a generated history)", ref="4/C20"),
 "C19": dict(
    text="One generated sub-check per producer with the same three-part oracle (reader accepts the document through a file and as text; what is read equals what was written; producing twice is textually identical and leaves the object unchanged): Die.write_yaml (before / after refinement), Allocation.write_yaml (generated, after refinement histories, from create_initial_allocation), netgen through its main() for EVERY listed topology and size (exhaustive, with topology checked against its definition), the FloorSet converter on synthetic FloorSet-Prime dictionaries (polygonal blocks, border pins, both terminal modes, density), rect_io.get_netlist / solution_to_netlist, and legalfloor Model.get_netlist on C09 models.",
    note="Round trips compare through the readers' objects; netgen sizes are exhaustive inside the listed ranges, everything else sampled. FloorSet-Lite rows and undefined netgen sizes are outside the domain.",
    technique="property-based testing (Hypothesis) + exhaustive enumeration of generator sizes, round-trip oracle", ref="4/C19"),
 "C09": dict(
    text="Generated legal floorplans (slot construction: soft / multi-rectangle hard / fixed orthogons within the aspect-ratio limit; ints and floats; fractional units) go through the real Netlist -> netlist_to_utils -> Model construction (no solve); configurations are assigned to the model's variables and every legality equation (Area, Inter, Fix, Bounds, Shapes, Attach, Intra) is evaluated with the slack annealed to zero: the input configuration and a second independently drawn legal configuration must satisfy all of them, and twelve kinds of single-clause violations must each leave some equation unmet; the converter's role assignment is cross-checked against the generator's.",
    note="Trusted: the legal-floorplan constructor (its legality is by construction: disjoint slots, attachment arithmetic on integers) and Equation.is_equation_met's own 1e-6 tolerance. Optimiser bookkeeping groups (radius, Exact Value, Rid) are not part of legality. Violations are by at least one lattice unit; overlap trunk-on-trunk.",
    technique="property-based testing (Hypothesis): constructed legal instances + fault-injected illegal ones against the built constraint system (both directions)", ref="4/C09"),
 "C14": dict(
    text="Generated connected netlists (4-8 movable soft / hard modules, 0-2 fixed, weighted hyperedges) on dies of aspect 1:1 to 1:10 with discs drawn to fit, a third of them tightly, trial counts 0/1/2/5, and the SEED of the random start generated by Hypothesis and applied with random.seed() right before the call (this is how 'every seed' is quantified); oracle: the call returns, every movable disc inside the die, fixed rectangles identical, hard modules translated rigidly, areas and nets unchanged.",
    note="Sampling over designs x seeds. Exceptions are classified by exception type and innermost tools/spectral frame; one open known finding (collapse of all movable nodes onto one coordinate -> ZeroDivisionError in abs_norm_dot_product) is listed in known_findings.json and reported as KNOWN-FINDING.",
    technique="property-based testing (Hypothesis) over inputs and random seeds with a geometric invariant oracle", ref="4/C14"),
 "C13": dict(
    text="Generated dies and netlists with centres (soft, fixed, terminal; coincident centres, centres on the border and in corners; weighted hyperedges; generated spring constants and iteration counts) through fruchterman_reingold_layout: fixed modules unmoved, centres finite and inside the die, nothing but centres changed, bit-identical result on a deep copy; and through force_algorithm: the returned layout must be one of the twelve candidate layouts and minimal under an independently computed cost (mpmath lens areas over ordered pairs + half the wire length).",
    note="Trusted: mpmath; candidate layouts come from the real layout function (deterministic), only the cost is independent. Best-of tolerance n(n-1) x 1e-5 Rmax^2 (accuracy C17 grants the tool's own disc formula).",
    technique="property-based testing (Hypothesis) with invariants, a determinism (metamorphic) check and a reference cost model", ref="4/C13"),
 "C08": dict(
    text="Model-set equality for the shape formula: for generated full grids (uniform or not, origin 0 or not, integer or fractional extent, permuted block order) and k = 1..3, ALL models of the CNF built as solve() builds it are enumerated (PySAT + blocking clauses), projected on the per-box cell variables, and compared as a set with an independent enumeration of k-tuples (trunk, branches) - spurious and missing shapes both count; bounded-exhaustive over every grid shape up to 3x3 (4x4 thorough) on five coordinate systems; and rect.solve() itself is run in minimum-error mode for bounds from below the minimum to above the maximum attainable cost and its verdict, rectangles and reported cost are checked against the enumeration.",
    note="Trusted: PySAT, the 25-line shape enumerator. Grids are complete; coordinates multiples of 0.5, occupancies multiples of 1/4 (exact integer costs). GreedyManager (DLL) stubbed - not used by the checked functions.",
    technique="property-based testing + bounded exhaustive enumeration with a model-set-equality oracle", ref="4/C08"),
 "C15": dict(
    text="Bounded-exhaustive: ALL 0/1 grids of at most 16 cells (quick; 576 650 grids) / 20 cells (thorough; 9.7 million) in every rows x cols shape are decided by a brute-force existence oracle over all all-ones trunks and every offered decomposition is validated as a partition into trunk + abutting branches; beyond the bound, generated grids up to 8x8 (orthogons, near-orthogons, rings, staircases, two components, explicit row/column sizes) and generated orthogon polygons on non-uniform fractional lattices (both orientations, every start vertex, redundant vertices, Points / numpy rows) through strop_decomposition and Netlist loading.",
    note="Exhaustive only inside the stated bound; sampling beyond it. Trusted: the 30-line existence oracle written from the statement; exact geometry for the polygon union.",
    technique="bounded exhaustive enumeration + property-based testing (Hypothesis) against a brute-force reference", ref="4/C15"),
 "C03": dict(
    text="Generated dies (blockages, specialised and fixed regions, optionally refined by split_refinable_regions / initial_grid) with compatible netlists (fixed modules on the die's fixed rectangles; soft modules with rectangles or centre-only squares, hard modules; overlapping each other, blockages, fixed cells, sticking out of the die), both include-zero settings; oracle: expected[cell][module] = exact intersection area / cell area from the source model in Fractions (40-digit sqrt for squares), fixed cells owned {F: 1.0} and nothing else, allocated module area = exact covered area, listing only on overlap.",
    note="Trusted: exact geometry, the die's own cell list (C01 / C11). Tolerance 1e-9 absolute on ratios; 'not listed' asserted only one lattice step clear of contact. Modules overlapping no refinable cell are outside the quantifier.",
    technique="property-based testing (Hypothesis) against an exact-arithmetic reference model", ref="4/C03"),
 "C02": dict(
    text="Generated operation histories (model-based: initial allocation + 1-4 operations among refine(threshold, levels), uniform_refinement_depth, griddify, thresholds drawn from the current state) with an invariant checked after every step against the previous and the ORIGINAL allocation in Fraction arithmetic: parent containment, same tag and occupancy map, children tile their parent, module areas and centroids conserved, fixed cells uncut (griddify, refine < 1), no exception.",
    note="Trusted: exact geometry, exact module area/centroid computed from the original snapshot. Fixed cells under uniform refinement / refine(1.0) are deliberately not asserted (spec conflict, DESIGN 4/C02).",
    technique="stateful property-based testing (Hypothesis-generated operation sequences) with a conservation invariant", ref="4/C02"),
 "C12": dict(
    text="Generated allocations (empty maps, unequal boundary counts, slivers, fixed cells) driven through the refine-while-needed loop, uniform refinement and griddify; oracles: must_be_refined == 'refine changes it' at every repetition, a reference refinement written from the statement (which cells, how many pieces, reachable shapes by halving the longer side, depth, map), former-maximum depth for uniform refinement, and a no-crossing-boundary-line condition with the 1% sliver exception for griddify.",
    note="Trusted: reference refinement (40 lines) and exact lattice coordinates of the case. Ties w == h accept either direction; the sliver exception is judged against the original cell's other side (weakest sound reading).",
    technique="property-based testing (Hypothesis) against a reference model and a differential predicate-vs-operation relation", ref="4/C12"),
 "C05": dict(
    text="Generated well-formed netlists with an exact source model: every derived quantity (areas, areas by region, area-weighted centroids, kind flags, aspect ratio, per-module / all / fixed rectangle lists, nets, weights, wire length) is recomputed from the definition in Fractions / mpmath and compared; and the same documents with exactly one injected defect of each of 18 classes at a generated position must be rejected.",
    note="Trusted: the 60-line expected-value functions over the source model, mpmath sqrt. Rejection = any exception. Order of rectangles inside a module is not asserted.",
    technique="property-based testing (Hypothesis) against a reference model, plus fault-injected ill-formed inputs", ref="4/C05"),
 "C04": dict(
    text="Generated netlist documents covering every attribute combination of the exchange format (soft with scalar / per-region areas, centre, aspect ratio scalar / interval, rectangles in regions; hard, flippable, fixed, terminal; nets of any arity with repeated members, weights absent / 1 / int / float; YAML-sensitive names), loaded, written, re-read and compared field by field with ==; the second write must be textually identical and writing must not alter the object.",
    note="Round-trip oracle: the reader is on both sides, so reader defects that are consistent across both loads are C05's business, not C04's.",
    technique="property-based testing (Hypothesis) with a write/read round-trip oracle", ref="4/C04"),
 "C11": dict(
    text="Generated dies (lattice, blockages / specialised / fixed regions) refined with generated aspect-ratio limits (half of them in [1.42, 2), where the count-driven phase matters) and counts 1..60, and empty dies gridded 1..8 x 1..8; oracle: count reached, every new region inside exactly one former refinable region with the same tag, children tile their parent, every ratio <= r, blockages and fixed regions untouched (same objects, same geometry).",
    note="Trusted: exact geometry on the float results taken as exact reals, relative tolerance 1e-9 (1e-12 on the ratio). Dies without refinable region and initial_grid(1,1) are outside the domain.",
    technique="property-based testing (Hypothesis) with a tiling/containment invariant oracle", ref="4/C11"),
 "C01": dict(
    text="Generated die descriptions on dyadic and decimal lattices (regions and fixed netlist rectangles packed by construction so that they touch each other and the border; tree / YAML text / file / WxH forms), judged in Fraction arithmetic: reported regions inside the die, pairwise disjoint, areas summing to the die, every Hanan cell of the exact description covered exactly once, inputs reported unchanged with their tag; and the same descriptions with one injected overlap (>= one lattice cell) or overhang (>= one unit) must be rejected.",
    note="Trusted: exact geometry module. Float results compared with 1e-9 relative tolerances; rejection = any exception. Valid descriptions include decimal steps (0.1, 0.3, 0.0025, ...) on small dies where rounding shows.",
    technique="property-based testing (Hypothesis) against an exact-arithmetic tiling oracle, plus fault-injected invalid inputs", ref="4/C01"),
 "C06": dict(
    text="Generated rectangle lists (orthogons with several branches per side, near misses by gap / overhang / overlap, repeated rectangles, random lists, every order; dyadic and decimal lattices) passed to create_stog directly and through Netlist loading, judged by a brute-force search over all candidate trunks on the exact lattice coordinates; verdict, trunk-first, side roles, no-role-otherwise and permutation/immutability are all asserted.",
    note="Trusted: the exact-geometry abutment predicate (15 lines, Fractions). Lattice unit >= 0.0025 so that contacts and misses are far from FRAME's epsilons.",
    technique="property-based testing (Hypothesis) against a brute-force reference recogniser", ref="4/C06"),
 "C17": dict(
    text="Generated disc pairs concentrated on the numerically hard region (centre distance within +-4 ulps of r1+r2 and |r1-r2|, equal and nearly equal radii, radii over six decades, axis-aligned / 3-4-5 / arbitrary directions) judged against the 50-digit mpmath lens area of the float inputs: totality, symmetry (1e-6 R^2), bounds, accuracy (1e-5 R^2).",
    note="Trusted: mpmath at 50 digits, Fraction arithmetic for the case split. Radii in [1e-3, 1e3], |coordinates| <= 1e4.",
    technique="property-based testing (Hypothesis) against a high-precision reference implementation", ref="4/C17"),
 "C07": dict(
    text="Generated posting scripts (clauses, implications, both at-most-one encodings, pseudo-Boolean inequalities with both ROBDD constructions, preceded by other managers' encodings in the same process) judged by model-set equality: for ALL assignments of the user variables, extendability to a model of SATManager.clauses (PySAT on an independent translation) must equal direct integer evaluation of the accepted constraints - both directions - followed by solve()/value()/evalexpr() checks. Sampling of scripts, exhaustive over assignments per script.",
    note="Trusted: the PySAT solver (cross-checked by brute force on small CNFs in a fixed fraction of cases) and the 20-line integer evaluator of the script. A posting that raises is a refusal.",
    technique="property-based testing (Hypothesis) with a model-set-equality oracle against a reference evaluator", ref="4/C07"),
 "C16": dict(
    text="Type-directed generated expression trees built through the real operator overloads (plus a bounded-exhaustive family of left-deep operator chains and all five comparisons over 2 variables with constants -2..2), each compared under all 2^n assignments with a plain-int reference evaluation; normal-form and operand-immutability invariants checked on every built object. Sampling plus bounded exhaustion; no absence claim beyond the enumerated family.",
    note="Trusted: Python int arithmetic; the reference evaluator (30 lines). Unsupported operand orders (TypeError) are outside the domain.",
    technique="property-based testing (Hypothesis) + bounded exhaustive enumeration against a reference interpreter", ref="4/C16"),
 "C18": dict(
    text="Generated pairs of rectangles and single rectangles with cut coordinates / grid shapes on dyadic lattices, judged by an exact Fraction-arithmetic plane-geometry oracle; every Rectangle operation named in the property is compared bit for bit (exact inputs make the float evaluation exact). Sampling with measured class coverage, shrunk counterexamples, no absence claim.",
    note="Trusted: Python Fraction arithmetic and the ~100-line exact geometry module (self-tested at setup against cell counting). Inputs are dyadic; decimal coordinates are covered by C01/C03/C11.",
    technique="property-based testing (Hypothesis) against an exact-arithmetic reference model", ref="4/C18"),
}

FUZZED = ["C01", "C02", "C03", "C04", "C05", "C06", "C07", "C11", "C12", "C15", "C16", "C17", "C18"]


def main():
    checks = []
    for pid in ALL:
        if pid not in CLAIMED:
            continue
        c = CLAIMED[pid]
        checks.append(dict(
            property_id=pid,
            quick_cmd="./check %s --tier quick" % pid,
            thorough_cmd="./check %s --tier thorough" % pid,
            evidence_file="evidence/%s.json" % pid,
            replay_cmd_template="./check %s --replay {path}" % pid,
            engine="vfw",
            level_claimed=dict(category="exploration", text=c["text"], design_ref="DESIGN.md section " + c["ref"]),
            level_note=c["note"],
            technique=c["technique"] + ("; the thorough tier adds coverage-guided fuzzing (atheris / libFuzzer, one campaign per core) "
                                        "over the same strategies and oracles" if pid in FUZZED else ""),
        ))
    na = [dict(property_id=p, reason="not claimed: see DESIGN.md")
          for p in ALL if p not in CLAIMED]
    man = dict(
        version=1,
        setup_cmd="sh scripts/setup.sh",
        hooks=dict(guard="FRAME_VERIF", enable="no hook is needed: checks import /repo's working tree directly (pure Python, PYTHONPATH=/repo)",
                   baseline_off_cmd="cd /repo && /venv/bin/python -m pytest -ra -q -p no:cacheprovider --timeout=900 --continue-on-collection-errors",
                   source_commits=[], add_only=True),
        engines=[dict(name="vfw", path="vfw/core.py", serves_properties=sorted(CLAIMED),
                      kind_free_text="property-based testing runner: Hypothesis strategies / bounded enumeration sharded over 16 processes, explicit oracles, shrinking, replay files, evidence writer; vfw/fuzz.py drives the same strategies and oracles from atheris / libFuzzer campaigns in the thorough tier")],
        checks=checks,
        notes="All checks: exit 0 held / 1 VIOLATION (not an open known finding) / 2 harness error. VERIF_SEED selects the Hypothesis seeds. known_findings.json lists fixed and open findings.",
        not_applicable=na,
    )
    with open(os.path.join(VERIF, "MANIFEST.json"), "w") as f:
        json.dump(man, f, indent=1)
        f.write("\n")
    print("MANIFEST.json: %d checks, %d not claimed" % (len(checks), len(na)))
main()
