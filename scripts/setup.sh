#!/bin/sh
# MANIFEST.setup_cmd: make sure hypothesis (and atheris for the thorough tier) are importable, offline.
cd "$(dirname "$0")/.." || exit 2
PY=/venv/bin/python
WH=/opt/veriftools/wheels
mkdir -p .deps
if ! PYTHONPATH="$(pwd)/.deps" $PY -c "import hypothesis" 2>/dev/null; then
  PIP_NO_INDEX=1 $PY -m pip install --no-index --find-links "$WH" --target .deps hypothesis >/dev/null 2>&1 || echo "setup: hypothesis not installable" >&2
fi
if ! PYTHONPATH="$(pwd)/.deps" $PY -c "import atheris" 2>/dev/null; then
  PIP_NO_INDEX=1 $PY -m pip install --no-index --find-links "$WH" --target .deps atheris >/dev/null 2>&1 || echo "setup: atheris not installable (thorough tier falls back to hypothesis only)" >&2
fi
PYTHONPATH="/repo:$(pwd):$(pwd)/.deps" $PY -c "
import hypothesis, frame, tools
from vfw import exact
exact.selftest()
print('setup ok: hypothesis', hypothesis.__version__, 'frame at', frame.__file__)
"
