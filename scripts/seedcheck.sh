#!/bin/sh
# scripts/seedcheck.sh Cnn [tier]
# Confirms a seeded change delivered in /tmp/seed/Cnn (worktree wt with the change applied, out/{patch.diff,demo.py,meta.json}):
#   tests pass with the change, demo fails with it and passes without it; then applies the patch to /repo, runs the
#   property's check, and restores /repo.  Stores the artefacts in /verif/seeded/Cnn/.
P=$1; TIER=${2:-quick}
S=${SEEDBASE:-/tmp/seed}/$P
D=$P${SEEDSUFFIX:-}
V=/verif
[ -f $S/out/patch.diff ] || { echo "no patch for $P"; exit 2; }
cd $S/wt || exit 2
# make sure the worktree holds exactly the patch
git checkout -q -- . && git apply $S/out/patch.diff || { echo "$P: patch does not apply to the worktree"; exit 2; }
T=$(/venv/bin/python -m pytest -q -p no:cacheprovider tests 2>&1 | tail -1)
PYTHONPATH=$S/wt /venv/bin/python $S/out/demo.py > $S/out/demo_with.txt 2>&1; DW=$?
git apply -R $S/out/patch.diff
PYTHONPATH=$S/wt /venv/bin/python $S/out/demo.py > $S/out/demo_without.txt 2>&1; DO=$?
git apply $S/out/patch.diff
echo "$P tests: $T | demo with change exit=$DW | without exit=$DO"
mkdir -p $V/seeded/$D
cp $S/out/patch.diff $S/out/demo.py $V/seeded/$D/ 2>/dev/null
cp $S/out/meta.json $V/seeded/$D/meta_agent.json 2>/dev/null
cd $V
# SEEDVIA=worktree: the checks run against the worktree that holds the change (FRAME_REPO) instead of a patched /repo - for use
# while other runs are reading /repo
if [ "$SEEDVIA" = worktree ]; then
  export FRAME_REPO=$S/wt
else
[ -z "$(git -C /repo status --porcelain --untracked-files=no)" ] || { echo "/repo dirty"; exit 2; }
git -C /repo apply $S/out/patch.diff || { echo "$P: patch does not apply to /repo"; exit 2; }
fi
s=$(date +%s)
VERIF_EVIDENCE_DIR=/tmp/vfw-evidence-scratch VERIF_CASE_TIMEOUT=30 ./check $P --tier $TIER > $S/out/check_$TIER.txt 2>&1; CE=$?
e=$(date +%s)
GEN=""
if grep -q "VIOLATION property=$P replay=$V/replay/" $S/out/check_$TIER.txt && ! grep -q "replay=$V/found/" $S/out/check_$TIER.txt; then
  # caught by a committed replay file only: is it also caught by the generated search alone?
  VERIF_NO_REGRESSION=1 VERIF_EVIDENCE_DIR=/tmp/vfw-evidence-scratch VERIF_CASE_TIMEOUT=30 ./check $P --tier $TIER > $S/out/check_${TIER}_noreplay.txt 2>&1
  GEN=" | generated search alone: exit=$? $(grep -A1 VIOLATION $S/out/check_${TIER}_noreplay.txt | tail -1 | cut -c1-160)"
fi
[ "$SEEDVIA" = worktree ] || git -C /repo checkout -- .
rm -rf $V/found/$P
echo "$P check($TIER) exit=$CE $((e-s))s: $(grep -E -A1 'VIOLATION|HARNESS' $S/out/check_$TIER.txt | head -2 | tr '\n' ' ' | cut -c1-300)$GEN"
echo "{\"tests\": \"$T\", \"demo_with_change_exit\": $DW, \"demo_without_change_exit\": $DO, \"check_tier\": \"$TIER\", \"check_exit\": $CE, \"check_seconds\": $((e-s))}" > $V/seeded/$D/confirm_$TIER.json
