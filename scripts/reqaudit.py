#!/venv/bin/python
"""After scripts/reqaudit.sh: minimum count of every required class over the audited seeds (flags < 15)."""
import glob, importlib, json, os, sys
sys.path.insert(0, os.path.dirname(os.path.dirname(os.path.abspath(__file__)))); sys.path.insert(0, "/repo")
rows = []
for i in range(1, 21):
    mod = importlib.import_module("props.c%02d" % i)
    for s in mod.subchecks():
        for cl in s.required:
            counts = []
            for f in sorted(glob.glob("/tmp/vfw-reqaudit/*/C%02d.json" % i)):
                d = json.load(open(f))["coverage"]["subchecks"].get(s.name, {})
                counts.append(d.get("classes", {}).get(cl, 0))
            rows.append((min(counts) if counts else -1, "C%02d" % i, s.name, cl, counts))
for r in sorted(rows):
    if r[0] < 15:
        print(r)
print("%d required classes audited, %d below 15" % (len(rows), sum(1 for r in rows if r[0] < 15)))
